// Command instrument writes instrumented copies of the library's codec and
// message packages plus a go build overlay that maps them over the originals
// (DESIGN 3.5).  Nothing is written inside the repository.
//
//	instrument -repo /repo -out <dir> -mode fine|coarse -shim /verif/shim
//
// The transformation only ADDS call statements to statement lists (vrt.P
// scheduling points, vrt.R/vrt.W access events on package-level locations,
// vrt.Tick at loop heads) and rewrites the import path of "sync" and
// "sync/atomic" to the scheduler-aware shims (the local name stays the same,
// so no other line changes).
package main

import (
	"bytes"
	"encoding/json"
	"flag"
	"fmt"
	"go/ast"
	"go/parser"
	"go/printer"
	"go/token"
	"os"
	"path/filepath"
	"sort"
	"strconv"
	"strings"
)

const modPath = "github.com/xinchentechnote/fin-proto-go"

var syncAPI = map[string]bool{"Lock": true, "Unlock": true, "RLock": true, "RUnlock": true, "TryLock": true, "TryRLock": true, "Do": true,
	"Wait": true, "Done": true, "Add": true, "Load": true, "Store": true, "Swap": true, "CompareAndSwap": true, "Get": true, "Put": true,
	"Range": true, "Delete": true, "LoadOrStore": true, "LoadAndDelete": true, "RLocker": true, "Signal": true, "Broadcast": true}

// lock operations are scheduling points inside the vsync shim already
var lockAPI = map[string]bool{"Lock": true, "Unlock": true, "RLock": true, "RUnlock": true, "TryLock": true, "TryRLock": true, "RLocker": true}

type pkgInfo struct {
	dir        string
	name       string
	files      map[string]*ast.File
	globals    map[string]string // package-level var name -> singleton type name ("" if unknown)
	singletons map[string]bool   // type names that are the type of some package-level var
	syncVars   map[string]bool   // package-level vars whose declared type is built from sync / sync/atomic types
	syncFields map[string]bool   // "Type.field" for struct fields whose type is built from sync / sync/atomic types
}

type siteTab struct {
	sites []string
}

func (s *siteTab) add(fset *token.FileSet, pos token.Pos) int {
	p := fset.Position(pos)
	s.sites = append(s.sites, fmt.Sprintf("%s:%d", p.Filename, p.Line))
	return len(s.sites) - 1
}

func main() {
	repo := flag.String("repo", "/repo", "repository root")
	out := flag.String("out", "", "output directory")
	mode := flag.String("mode", "coarse", "fine (scheduling point before every statement), visible (only before statements that touch package-level state; lock operations are always points) or coarse (function entry)")
	shim := flag.String("shim", "/verif/shim", "shim sources")
	flag.Parse()
	if *out == "" {
		fmt.Fprintln(os.Stderr, "need -out")
		os.Exit(2)
	}
	os.MkdirAll(*out, 0o755)
	overlay := map[string]string{}
	// shim packages become virtual packages of the library's module
	for _, sp := range []string{"vrt", "vsync", "vatomic"} {
		ents, err := os.ReadDir(filepath.Join(*shim, sp))
		if err != nil {
			fmt.Fprintln(os.Stderr, err)
			os.Exit(2)
		}
		for _, e := range ents {
			if strings.HasSuffix(e.Name(), ".go") {
				overlay[filepath.Join(*repo, "zzverif", sp, e.Name())] = filepath.Join(*shim, sp, e.Name())
			}
		}
	}
	dirs, _ := filepath.Glob(filepath.Join(*repo, "*", "messages"))
	dirs = append([]string{filepath.Join(*repo, "codec")}, dirs...)
	sort.Strings(dirs[1:])
	sites := &siteTab{}
	var globalsIndex = map[string][]string{}
	for _, d := range dirs {
		fset := token.NewFileSet()
		pk := &pkgInfo{dir: d, files: map[string]*ast.File{}, globals: map[string]string{}, singletons: map[string]bool{}, syncVars: map[string]bool{}, syncFields: map[string]bool{}}
		ents, _ := os.ReadDir(d)
		for _, e := range ents {
			n := e.Name()
			if !strings.HasSuffix(n, ".go") || strings.HasSuffix(n, "_test.go") {
				continue
			}
			f, err := parser.ParseFile(fset, filepath.Join(d, n), nil, parser.SkipObjectResolution)
			if err != nil {
				fmt.Fprintln(os.Stderr, err)
				os.Exit(2)
			}
			pk.files[n] = f
			pk.name = f.Name.Name
		}
		if len(pk.files) == 0 {
			continue
		}
		collectGlobals(pk)
		names := make([]string, 0, len(pk.files))
		for n := range pk.files {
			names = append(names, n)
		}
		sort.Strings(names)
		for _, n := range names {
			f := pk.files[n]
			in := &instr{pk: pk, fset: fset, fine: *mode == "fine", visible: *mode == "visible" || *mode == "ticks", ticksOnly: *mode == "ticks", sites: sites}
			in.file(f)
			var buf bytes.Buffer
			if err := printer.Fprint(&buf, fset, f); err != nil {
				fmt.Fprintln(os.Stderr, err)
				os.Exit(2)
			}
			rel, _ := filepath.Rel(*repo, filepath.Join(d, n))
			dst := filepath.Join(*out, strings.ReplaceAll(rel, string(filepath.Separator), "__"))
			os.WriteFile(dst, buf.Bytes(), 0o644)
			overlay[filepath.Join(d, n)] = dst
		}
		// VerifGlobals: addresses of all package-level variables
		var gs []string
		for g := range pk.globals {
			gs = append(gs, g)
		}
		sort.Strings(gs)
		var b bytes.Buffer
		fmt.Fprintf(&b, "package %s\n\n// VerifGlobals is added by the verification overlay only.\nfunc VerifGlobals() map[string]any {\n\treturn map[string]any{\n", pk.name)
		for _, g := range gs {
			if g == "_" {
				continue
			}
			fmt.Fprintf(&b, "\t\t%q: &%s,\n", g, g)
		}
		fmt.Fprintf(&b, "\t}\n}\n")
		rel, _ := filepath.Rel(*repo, d)
		dst := filepath.Join(*out, strings.ReplaceAll(rel, string(filepath.Separator), "__")+"__zz_verif_globals.go")
		os.WriteFile(dst, b.Bytes(), 0o644)
		overlay[filepath.Join(d, "zz_verif_globals.go")] = dst
		globalsIndex[rel] = gs
	}
	ob, _ := json.MarshalIndent(map[string]any{"Replace": overlay}, "", " ")
	os.WriteFile(filepath.Join(*out, "overlay.json"), ob, 0o644)
	sb, _ := json.Marshal(sites.sites)
	os.WriteFile(filepath.Join(*out, "sites.json"), sb, 0o644)
	gb, _ := json.MarshalIndent(globalsIndex, "", " ")
	os.WriteFile(filepath.Join(*out, "globals.json"), gb, 0o644)
	fmt.Printf("instrumented %d packages, %d sites, mode %s\n", len(globalsIndex), len(sites.sites), *mode)
}

func typeName(e ast.Expr) string {
	switch x := e.(type) {
	case *ast.Ident:
		return x.Name
	case *ast.StarExpr:
		return typeName(x.X)
	case *ast.UnaryExpr:
		return typeName(x.X)
	case *ast.CompositeLit:
		if x.Type != nil {
			return typeName(x.Type)
		}
	case *ast.IndexExpr: // generic instantiation
		return typeName(x.X)
	}
	return ""
}

// mentionsSync: the (type) expression is built from sync.X or atomic.X types, e.g. [N]atomic.Pointer[T], sync.Map, sync.Pool{…}.
func mentionsSync(e ast.Expr) bool {
	found := false
	ast.Inspect(e, func(n ast.Node) bool {
		if _, ok := n.(*ast.FuncLit); ok {
			return false
		}
		if sel, ok := n.(*ast.SelectorExpr); ok {
			if id, ok := sel.X.(*ast.Ident); ok && (id.Name == "sync" || id.Name == "atomic") {
				found = true
			}
		}
		return !found
	})
	return found
}

func collectGlobals(pk *pkgInfo) {
	structs := map[string]bool{}
	for _, f := range pk.files {
		for _, d := range f.Decls {
			gd, ok := d.(*ast.GenDecl)
			if !ok {
				continue
			}
			for _, sp := range gd.Specs {
				switch s := sp.(type) {
				case *ast.TypeSpec:
					if st, ok := s.Type.(*ast.StructType); ok {
						structs[s.Name.Name] = true
						for _, fl := range st.Fields.List {
							if mentionsSync(fl.Type) {
								for _, fn := range fl.Names {
									pk.syncFields[s.Name.Name+"."+fn.Name] = true
								}
							}
						}
					}
				case *ast.ValueSpec:
					if gd.Tok != token.VAR {
						continue
					}
					for i, n := range s.Names {
						if (s.Type != nil && mentionsSync(s.Type)) || (i < len(s.Values) && mentionsSync(s.Values[i])) {
							pk.syncVars[n.Name] = true
						}
						tn := ""
						if s.Type != nil {
							tn = typeName(s.Type)
						} else if i < len(s.Values) {
							tn = typeName(s.Values[i])
						}
						pk.globals[n.Name] = tn
					}
				}
			}
		}
	}
	for g, tn := range pk.globals {
		if structs[tn] {
			pk.singletons[tn] = true
		} else {
			pk.globals[g] = ""
		}
	}
}

type instr struct {
	pk         *pkgInfo
	fset       *token.FileSet
	fine       bool
	visible    bool
	atomicName string // local name of the sync/atomic import in the current file ("" if not imported)
	sawSync    bool   // the statement being analysed calls a (non-lock) sync-API method on package-level state
	ticksOnly  bool   // only loop-iteration counters: no scheduling points, no access events, "sync" left alone
	sites      *siteTab
	recv       string // receiver name of the current method if its type is a singleton type
	recvT      string
	local      map[string]bool // names shadowing globals in the current function (params / := / var)
}

func (in *instr) file(f *ast.File) {
	in.atomicName = ""
	// imports
	needVrt := false
	for _, is := range f.Imports {
		p, _ := strconv.Unquote(is.Path.Value)
		if in.ticksOnly {
			break
		}
		switch p {
		case "sync":
			is.Path.Value = strconv.Quote(modPath + "/zzverif/vsync")
			if is.Name == nil {
				is.Name = ast.NewIdent("sync")
			}
		case "sync/atomic":
			is.Path.Value = strconv.Quote(modPath + "/zzverif/vatomic")
			if is.Name == nil {
				is.Name = ast.NewIdent("atomic")
			}
			in.atomicName = is.Name.Name
		}
	}
	for _, d := range f.Decls {
		fd, ok := d.(*ast.FuncDecl)
		if !ok || fd.Body == nil {
			continue
		}
		in.recv, in.recvT = "", ""
		in.local = map[string]bool{}
		if fd.Recv != nil && len(fd.Recv.List) == 1 && len(fd.Recv.List[0].Names) == 1 {
			tn := typeName(fd.Recv.List[0].Type)
			if in.pk.singletons[tn] {
				in.recv, in.recvT = fd.Recv.List[0].Names[0].Name, tn
			}
			in.local[fd.Recv.List[0].Names[0].Name] = true
		}
		if fd.Type.Params != nil {
			for _, p := range fd.Type.Params.List {
				for _, n := range p.Names {
					in.local[n.Name] = true
				}
			}
		}
		collectLocals(fd.Body, in.local)
		in.block(fd.Body, fd.Name.Name == "init")
		if !in.visible {
			entry := in.call("P", in.sites.add(in.fset, fd.Pos()))
			fd.Body.List = append([]ast.Stmt{entry}, fd.Body.List...)
		}
		needVrt = true
	}
	if needVrt {
		// add the vrt import as a new import declaration
		imp := &ast.GenDecl{Tok: token.IMPORT, Specs: []ast.Spec{&ast.ImportSpec{Name: ast.NewIdent("vrt"), Path: &ast.BasicLit{Kind: token.STRING, Value: strconv.Quote(modPath + "/zzverif/vrt")}}}}
		f.Decls = append([]ast.Decl{imp}, f.Decls...)
		// keep the import used even when no call was inserted into this file
		f.Decls = append(f.Decls, &ast.GenDecl{Tok: token.VAR, Specs: []ast.Spec{&ast.ValueSpec{Names: []*ast.Ident{ast.NewIdent("_")},
			Values: []ast.Expr{&ast.SelectorExpr{X: ast.NewIdent("vrt"), Sel: ast.NewIdent("Tick")}}}}})
	}
}

// collectLocals records every name declared inside the function (over-approximates shadowing: a
// shadowed global is simply not tracked inside this function).
func collectLocals(b *ast.BlockStmt, local map[string]bool) {
	ast.Inspect(b, func(n ast.Node) bool {
		switch x := n.(type) {
		case *ast.AssignStmt:
			if x.Tok == token.DEFINE {
				for _, l := range x.Lhs {
					if id, ok := l.(*ast.Ident); ok {
						local[id.Name] = true
					}
				}
			}
		case *ast.ValueSpec:
			for _, id := range x.Names {
				local[id.Name] = true
			}
		case *ast.RangeStmt:
			if x.Tok == token.DEFINE {
				for _, e := range []ast.Expr{x.Key, x.Value} {
					if id, ok := e.(*ast.Ident); ok {
						local[id.Name] = true
					}
				}
			}
		case *ast.FuncLit:
			if x.Type.Params != nil {
				for _, p := range x.Type.Params.List {
					for _, id := range p.Names {
						local[id.Name] = true
					}
				}
			}
		}
		return true
	})
}

func (in *instr) call(fn string, site int, args ...string) ast.Stmt {
	var as []ast.Expr
	for _, a := range args {
		as = append(as, &ast.BasicLit{Kind: token.STRING, Value: strconv.Quote(a)})
	}
	as = append(as, &ast.BasicLit{Kind: token.INT, Value: strconv.Itoa(site)})
	return &ast.ExprStmt{X: &ast.CallExpr{Fun: &ast.SelectorExpr{X: ast.NewIdent("vrt"), Sel: ast.NewIdent(fn)}, Args: as}}
}

func (in *instr) tick() ast.Stmt {
	return &ast.ExprStmt{X: &ast.CallExpr{Fun: &ast.SelectorExpr{X: ast.NewIdent("vrt"), Sel: ast.NewIdent("Tick")}}}
}

// path returns the package-level location an expression denotes ("" if none).
func (in *instr) path(e ast.Expr) string {
	switch x := e.(type) {
	case *ast.Ident:
		if in.local[x.Name] {
			if x.Name == in.recv && in.recv != "" {
				return in.pk.name + "." + in.recvT
			}
			return ""
		}
		if in.pk.syncVars[x.Name] {
			in.sawSync = true // an operation on a package-level synchronisation object: scheduling point, no data-access event
			return ""
		}
		if tn, ok := in.pk.globals[x.Name]; ok {
			if tn != "" {
				return in.pk.name + "." + tn // singleton: type-qualified location shared with receiver accesses
			}
			return in.pk.name + "." + x.Name
		}
	case *ast.SelectorExpr:
		if p := in.path(x.X); p != "" {
			// p is "<pkg>.<Type>[.field…]": a field whose declared type is a sync / atomic type is a synchronisation object
			if parts := strings.Split(p, "."); len(parts) == 2 && in.pk.syncFields[parts[1]+"."+x.Sel.Name] {
				in.sawSync = true
				return ""
			}
			return p + "." + x.Sel.Name
		}
	case *ast.IndexExpr:
		return in.path(x.X)
	case *ast.SliceExpr:
		return in.path(x.X)
	case *ast.StarExpr:
		return in.path(x.X)
	case *ast.ParenExpr:
		return in.path(x.X)
	}
	return ""
}

type acc struct {
	loc   string
	write bool
}

// accesses of the "header" of a statement (nested blocks are handled on their own).
func (in *instr) accesses(s ast.Stmt) []acc {
	var out []acc
	seen := map[acc]bool{}
	add := func(loc string, w bool) {
		if loc == "" {
			return
		}
		// bare receiver / singleton root without a field: reading the pointer itself is not a data access worth tracking
		if strings.Count(loc, ".") < 2 && in.isSingletonRoot(loc) {
			return
		}
		a := acc{loc, w}
		if !seen[a] {
			seen[a] = true
			out = append(out, a)
		}
	}
	var reads func(e ast.Expr)
	reads = func(e ast.Expr) {
		if e == nil {
			return
		}
		ast.Inspect(e, func(n ast.Node) bool {
			switch x := n.(type) {
			case *ast.FuncLit:
				return false // instrumented separately
			case *ast.CallExpr:
				if sel, ok := x.Fun.(*ast.SelectorExpr); ok {
					if id, isID := sel.X.(*ast.Ident); isID && in.atomicName != "" && id.Name == in.atomicName && !in.local[id.Name] {
						// atomic.LoadX(&v) / StoreX / AddX / CompareAndSwapX: a synchronisation operation on v, not a plain
						// access — no data-access event for the addressed operand, but a scheduling point
						in.sawSync = true
						for _, a := range x.Args {
							if u, isU := a.(*ast.UnaryExpr); isU && u.Op == token.AND {
								continue
							}
							reads(a)
						}
						return false
					}
					if lockAPI[sel.Sel.Name] {
						// a lock operation: already a scheduling point inside the vsync shim; no extra point, no access event
						saved := in.sawSync
						root := in.path(sel.X)
						in.sawSync = saved
						if root != "" || in.isSyncRooted(sel.X) {
							for _, a := range x.Args {
								reads(a)
							}
							return false
						}
					}
					if p := in.path(sel.X); p != "" {
						if !syncAPI[sel.Sel.Name] {
							add(p, false)
						} else if !lockAPI[sel.Sel.Name] {
							// an operation on a shared synchronisation object (sync.Map, atomic value, pool, once …): no
							// data-access event, but it is a visible operation, so the statement gets a scheduling point
							in.sawSync = true
						}
						for _, a := range x.Args {
							reads(a)
						}
						return false
					}
				}
				if id, ok := x.Fun.(*ast.Ident); ok && id.Name == "delete" && len(x.Args) == 2 {
					add(in.path(x.Args[0]), true)
					reads(x.Args[1])
					return false
				}
			case *ast.UnaryExpr:
				if x.Op == token.AND {
					if p := in.path(x.X); p != "" {
						// taking an address is not an access; what happens through the pointer later is invisible to a
						// name-based monitor (it is covered by result comparison and the -race adjunct).  Assuming a write
						// here made correct lock-free code (pointer to a slot, then atomic methods) look racy.
						return false
					}
				}
			case *ast.SelectorExpr, *ast.Ident, *ast.IndexExpr:
				if p := in.path(x.(ast.Expr)); p != "" {
					add(p, false)
					if ix, ok := x.(*ast.IndexExpr); ok {
						reads(ix.Index)
					}
					return false
				}
			}
			return true
		})
	}
	switch x := s.(type) {
	case *ast.AssignStmt:
		for _, l := range x.Lhs {
			if x.Tok == token.DEFINE {
				continue
			}
			if p := in.path(l); p != "" {
				add(p, true)
				if ix, ok := l.(*ast.IndexExpr); ok {
					reads(ix.Index)
				}
			} else {
				reads(l)
			}
		}
		for _, r := range x.Rhs {
			reads(r)
		}
	case *ast.IncDecStmt:
		add(in.path(x.X), true)
	case *ast.ExprStmt:
		reads(x.X)
	case *ast.ReturnStmt:
		for _, r := range x.Results {
			reads(r)
		}
	case *ast.IfStmt:
		if x.Init != nil {
			out = append(out, in.accesses(x.Init)...)
		}
		reads(x.Cond)
	case *ast.ForStmt:
		if x.Init != nil {
			out = append(out, in.accesses(x.Init)...)
		}
		reads(x.Cond)
		if x.Post != nil {
			out = append(out, in.accesses(x.Post)...)
		}
	case *ast.RangeStmt:
		reads(x.X)
	case *ast.SwitchStmt:
		if x.Init != nil {
			out = append(out, in.accesses(x.Init)...)
		}
		reads(x.Tag)
	case *ast.TypeSwitchStmt:
		if x.Init != nil {
			out = append(out, in.accesses(x.Init)...)
		}
		if as, ok := x.Assign.(*ast.AssignStmt); ok {
			for _, r := range as.Rhs {
				reads(r)
			}
		} else if es, ok := x.Assign.(*ast.ExprStmt); ok {
			reads(es.X)
		}
	case *ast.DeferStmt:
		reads(x.Call)
	case *ast.GoStmt:
		reads(x.Call)
	case *ast.SendStmt:
		reads(x.Chan)
		reads(x.Value)
	case *ast.DeclStmt:
		if gd, ok := x.Decl.(*ast.GenDecl); ok {
			for _, sp := range gd.Specs {
				if vs, ok := sp.(*ast.ValueSpec); ok {
					for _, v := range vs.Values {
						reads(v)
					}
				}
			}
		}
	case *ast.LabeledStmt:
		return in.accesses(x.Stmt)
	}
	return out
}

// isSyncRooted: the expression is a package-level sync variable or a sync-typed field of a singleton / receiver.
func (in *instr) isSyncRooted(e ast.Expr) bool {
	saved := in.sawSync
	in.sawSync = false
	_ = in.path(e)
	r := in.sawSync
	in.sawSync = saved
	return r
}

func (in *instr) isSingletonRoot(loc string) bool {
	parts := strings.SplitN(loc, ".", 2)
	return len(parts) == 2 && in.pk.singletons[parts[1]]
}

func (in *instr) funcLits(n ast.Node) {
	ast.Inspect(n, func(m ast.Node) bool {
		switch x := m.(type) {
		case *ast.BlockStmt:
			if x != n {
				return false // nested statement blocks are visited by block()
			}
		case *ast.FuncLit:
			in.block(x.Body, false)
			if !in.visible {
				x.Body.List = append([]ast.Stmt{in.call("P", in.sites.add(in.fset, x.Pos()))}, x.Body.List...)
			}
			return false
		}
		return true
	})
}

func (in *instr) block(b *ast.BlockStmt, isInit bool) {
	if b == nil {
		return
	}
	b.List = in.stmts(b.List)
}

func (in *instr) stmts(list []ast.Stmt) []ast.Stmt {
	var out []ast.Stmt
	for _, s := range list {
		site := in.sites.add(in.fset, s.Pos())
		in.sawSync = false
		accs := in.accesses(s)
		if in.ticksOnly {
			accs = nil
			in.sawSync = false
		}
		if in.fine || (in.visible && (len(accs) > 0 || in.sawSync)) {
			out = append(out, in.call("P", site))
		}
		for _, a := range accs {
			if a.write {
				out = append(out, in.call("W", site, a.loc))
			} else {
				out = append(out, in.call("R", site, a.loc))
			}
		}
		in.nested(s)
		out = append(out, s)
	}
	return out
}

func (in *instr) nested(s ast.Stmt) {
	switch x := s.(type) {
	case *ast.BlockStmt:
		in.block(x, false)
	case *ast.IfStmt:
		in.hdrLits(x.Init, x.Cond)
		in.block(x.Body, false)
		if x.Else != nil {
			in.nested(x.Else)
		}
	case *ast.ForStmt:
		in.hdrLits(x.Init, x.Cond)
		in.block(x.Body, false)
		x.Body.List = append([]ast.Stmt{in.tick()}, x.Body.List...)
	case *ast.RangeStmt:
		in.hdrLits(nil, x.X)
		in.block(x.Body, false)
		x.Body.List = append([]ast.Stmt{in.tick()}, x.Body.List...)
	case *ast.SwitchStmt:
		in.hdrLits(x.Init, x.Tag)
		for _, c := range x.Body.List {
			cc := c.(*ast.CaseClause)
			cc.Body = in.stmts(cc.Body)
		}
	case *ast.TypeSwitchStmt:
		for _, c := range x.Body.List {
			cc := c.(*ast.CaseClause)
			cc.Body = in.stmts(cc.Body)
		}
	case *ast.SelectStmt:
		for _, c := range x.Body.List {
			cc := c.(*ast.CommClause)
			cc.Body = in.stmts(cc.Body)
		}
	case *ast.LabeledStmt:
		in.nested(x.Stmt)
	default:
		in.funcLits(s)
	}
}

func (in *instr) hdrLits(init ast.Stmt, e ast.Expr) {
	if init != nil {
		in.funcLits(init)
	}
	if e != nil {
		in.funcLits(e)
	}
}
