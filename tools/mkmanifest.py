#!/usr/bin/env python3
"""Writes /verif/MANIFEST.json. Edit BUILT / texts here, then run."""
import json

BASELINE = "cd /repo && GOFLAGS=-mod=mod GOPROXY=off go test -json -vet=off -count=1 -timeout 25m ./..."

P = {
 "C01": dict(engine="valenum+bind", technique="bounded-exhaustive value enumeration (<=k deviating leaves from two bases) through the real Encode/Decode, bitwise oracle",
             text="Every value within k deviating leaves (k=1 quick; 2, and 3 for types with <=10 leaves, thorough) of an all-zero and an all-distinct base, over canonical per-kind alphabets incl. 65,535-element lists, for all 170 pinned types, is encoded and decoded by the real code and compared bitwise. Exhaustive within that bound; says nothing about interactions of more leaves.",
             note="trusts the reflection binding and the canonical-domain filter; computed fields are checked against values derived from the library's own output bytes", ref="4 C01"),
 "C02": dict(engine="refmodel+valenum+wirex", technique="bounded-exhaustive differential check against an independent interpreter of the pinned schema, both directions",
             text="All values within k deviations (incl. non-canonical text) are rendered by the library and by an independent interpreter of schema/pinned/*.json and compared byte-for-byte; every reference wire of V1 and every 1-byte substitution from a 7-byte alphabet is decoded by both and compared (accept/reject, value, consumed).",
             note="the pinned JSON schema is the specification (reverse-engineered once from the pinned commit; byte order pinned per protocol)", ref="4 C02"),
 "C03": dict(engine="prims+refmodel", technique="exhaustive sweep of every BE/LE primitive instantiation x value alphabet; per-integer wire walk of every message type",
             text="All 74 instantiations of the BE/LE primitive pairs (4 prefix types x 10 element kinds, text, text lists, object lists) x the value alphabet satisfy the byte-reversal law and match a reference; every numeric wire segment of every message type over V1 is in the protocol's byte order.",
             note="integer segments are delimited by the primitive's specification", ref="4 C03"),
}

P.update({
 "C04": dict(engine="histx", technique="exhaustive operation-history exploration (all op sequences to a depth bound x buffer capacity classes) of real buffers/messages against a pure model",
             text="For the 4 frame types with a computed length x every registered body key (Z, D+stale, L bodies) + nil body: every sequence of <=3 (quick) / <=5 (thorough) operations from {ENC x3, SKIP x2, JUNK x2, RESET} x 10 buffer capacity classes (incl. caller-owned slices and mostly-consumed buffers whose growth slides the data in place), plus a >64 KiB body scenario, is replayed; value legs run fixed short histories for every V1 value of the frames and of every body type wrapped in its frame; C04 also checks the length with the checksum registry cleared; on fresh real objects; after every operation the buffer and the message object are compared with a model in which the length field equals the number of body bytes.",
             note="model ENC transition = unread ++ EncodeRef(m); consumed bytes are not observable", ref="4 C04"),
 "C05": dict(engine="histx", technique="exhaustive operation-history exploration against a pure model with independent bitwise checksum references",
             text="Same histories as C04 for the 3 checksummed frame types; the trailer on the wire and frame.Checksum must equal an independent byte-sum / CRC-32 over exactly this frame's bytes after the length patch, in every prior buffer state reached by the histories.",
             note="independent checksum implementations in engine/refmodel", ref="4 C05"),
 "C06": dict(engine="histx", technique="exhaustive operation-history exploration (append-only / context-free / repeatable oracle)",
             text="Every one of the 170 types as a single-type scenario (plus nil-extension and long variants and all frame scenarios): all operation sequences to depth 3/4 (frames 3/5) over {ENC(m0),ENC(m1),SKIP,SKIP,JUNK(1 byte),JUNK(5000 bytes),RESET} x 4 capacity classes; after each ENC the unread buffer must be prior ++ EncodeRef(m) with prior bytes identical; re-encoding the same object appends the same bytes.",
             note="model ENC transition = unread ++ EncodeRef(m)", ref="4 C06"),
 "C07": dict(engine="histx", technique="exhaustive enumeration of encode/tail/decode histories on real buffers against the reference decoder",
             text="Per type: every tuple of <=3 (4) encodes of {Z,D,L,other-body} messages into one buffer x 5 tails, followed by as many decodes, plus all free sequences to depth 3 (4) over {ENC,ENC,JUNK,JUNK,DEC,SKIP}; each decode must consume exactly the message, yield the original and leave the rest byte-identical.",
             note="after a failed decode the model re-synchronises (C07 constrains only successful decodes)", ref="4 C07"),
 "C08": dict(engine="wirex", technique="bounded-exhaustive wire enumeration (reference wires + <=k byte substitutions), decode-then-encode oracle",
             text="Per type: all reference wires of V1 including non-canonical forms and every 1-byte substitution from a 7-byte alphabet (2-byte on base wires in thorough); every wire the library accepts must re-encode to the consumed bytes, differences allowed only inside computed fields which must then be correct.",
             note="hostile-prefix wires are delegated to C09/C10", ref="4 C08"),
 "C09": dict(engine="wirex-workers", technique="bounded-exhaustive wire enumeration executed in RLIMIT_AS-limited worker processes with journalled cases (process death attributed to a case)",
             text="Every message decoder and every read primitive instantiation x {all strings <=2 bytes, every truncation of every V1 wire, seeds + 1-byte substitutions, every count/length prefix at extreme values with 0..8 trailing bytes, unregistered keys, lying counts after 1000/65536/65537 real elements}, incl. instantiations with named element types: 26M cases in quick; each must return without panic or process death (and within a loop-iteration budget when instrumentation is active).",
             note="20-minute hang guard per worker; worker death attributed to the mmap-journalled case", ref="4 C09"),
 "C10": dict(engine="wirex-workers", technique="bounded-exhaustive wire enumeration with exact per-call allocation measurement (TotalAlloc delta) in address-space-limited workers",
             text="Same 24M-case space as C09; TotalAlloc delta around each single decode <= 16384+64*len(input) and the worker survives an 8 GiB address-space limit. Exact and deterministic (GOMAXPROCS=1, ReadMemStats).",
             note="budget constants calibrated on the pinned tree (max legit ratio 17 B/wire byte) and re-validated on all valid encodings in every run", ref="4 C10"),
 "C11": dict(engine="wirex", technique="exhaustive enumeration of every cut position of every canonical V1 encoding",
             text="Per type: every canonical V1 value (V2 of structural positions in thorough) x every cut 0..len-1 (3.9M prefixes in quick) must be rejected by the real decoder.",
             note="zero-length encodings have no strict prefix and are reported separately", ref="4 C11"),
 "C16": dict(engine="histx", technique="exhaustive operation-history exploration with a separation invariant (deep snapshots) incl. scribbling over caller-owned backing arrays",
             text="Per type: all operation sequences to depth 3/4 over {ENC,ENC,DEC,SCRIBBLE,RESET,MUT} on a buffer over a caller-owned slice and on a zero-value buffer; after every op every decoded message must equal its deep snapshot and the buffer must equal the model.",
             note="snapshots are deep copies through reflection", ref="4 C16"),
})

P.update({
 "C12": dict(engine="table-explorer", technique="exhaustive enumeration of discriminator tables: every registered key in three modes, complete unregistered key spaces (all u16, all <=2-byte strings, 3-byte alphabet / all 2^24, all 2^32 in thorough)",
             text="18 tables x 226 keys through the factory, a full Decode into a fresh receiver and into a reused receiver holding another registered body, and nil-body Encode must give exactly the pinned body type and reference bytes; unregistered keys (registered keys decorated with white space/NUL; complete small spaces; structured alphabet for 32-bit tables in quick, all 2^32 through the factory in thorough) must give an error, no panic and no body.",
             note="pinned key->type map in schema/pinned; full-Decode sweeps of unregistered keys use the 17-byte alphabet", ref="4 C12"),
 "C13": dict(engine="primitive-sweep", technique="exhaustive primitive sweep: widths x pad bytes x sides x all strings <=2 bytes (+ alphabet strings), scalar/default/list variants",
             text="Widths {0..4} x pad bytes (8 in quick incl. 0x80,0xC2,0xFF; all 256 in thorough) x both sides x all 65,793 strings of <=2 bytes and longer alphabet strings, widths 8 and 120 over structured members: written bytes equal the cut/pad spec, read strips only the pad byte from the pad side and consumes exactly N bytes.",
             note="specification of pad/cut/strip is refmodel.FixText/StripText", ref="4 C13"),
 "C14": dict(engine="sumx", technique="checksum-automaton exploration: all short inputs, all (state,byte) transitions via witnesses, long uniform/ramp families for hidden-state overflow",
             text="4 services x all strings <=2 (quick) / <=3 (thorough) bytes, CRC16 and byte-sum automata, long uniform runs up to 32 MiB around the 2^31 accumulator boundary, ramps/alternations at 2^k+-1, every length 4..1200 (9000) for three patterns; each on a partially consumed buffer, checking value vs bitwise reference, range, purity and repeatability.",
             note="bitwise reference implementations self-checked against published check values; CRC32 beyond 3 bytes covered by families only", ref="4 C14"),
 "C15": dict(engine="receiver-bfs", technique="exhaustive receiver-history exploration: all decode-event sequences to depth 2 into one receiver from clean and hand-dirtied starts, differential against a fresh receiver",
             text="Per type: valid wires (structural deviations, every key) and failing truncations as events; every sequence of <=2 events into one receiver from 2-7 starting states (fresh, hand-dirtied, key/body mismatch), then every valid wire into it and into a fresh receiver; results must be equal.",
             note="no hand-written expected value: differential oracle dirty vs fresh", ref="4 C15"),
 "C17": dict(engine="valenum", technique="bounded-exhaustive value enumeration over unrestricted alphabets incl. nil parts and unregistered keys, panic monitor",
             text="Per type: zero value, constructor result, V1 (V2 thorough) over unrestricted alphabets (over-long text, 65,536-element lists, nil nested pointers, nil bodies with every registered key) and nil bodies with the unregistered-key alphabet; Encode must return without panicking.",
             note="nil list elements and typed-nil interface values are excluded as the property says", ref="4 C17"),
 "C18": dict(engine="primitive-sweep+valenum", technique="exhaustive sweep of lengths around every 8/16-bit prefix limit for every prefixed writer; message-level over-long members",
             text="Every prefixed writer instantiation with a u8 prefix x all lengths 0..600 and with a u16 prefix x lengths around 65,535/131,071 (BE and LE, counts and per-element lengths), ASCII and 3-byte-character texts; every message type x V1 with over-long members: too long => error, fits => success, reference bytes and read-back.",
             note="u32/u64 prefixes would need >= 4 GiB values: not attempted", ref="4 C18"),
})

P.update({
 "C19": dict(engine="schedx", technique="stateless model checking of the real registry under a controlled scheduler: all interleavings at visible operations (locks, accesses to package-level state), linearizability by brute force against a map model, vector-clock happens-before race monitor",
             text="The real codec registry, instrumented through a build overlay (scheduling points at every lock operation and before every statement touching the registry's fields, R/W events), is run under our scheduler for 10,800 scenarios (2 threads x <=2 ops, 3 threads x 1 op, 8-op alphabet, 3 initial states; 15 warm start states; a 64-name registry with every pair of names looked up concurrently): every interleaving is executed (6.7M schedules; 12 scenarios to preemption bound 2); single-threaded, every operation sequence <=3 over case/space-variant names is compared with the map model; each execution's call/return history plus final look-ups must be linearizable w.r.t. a plain map (decided by brute force and, independently, by porcupine), free of happens-before races and deadlocks. A free-running -race pass of the same operations is an adjunct only.",
             note="scheduling granularity = visible operations (validated: statement-granularity exploration yields the same 16,464 distinct outcomes); memory effects below happens-before not modelled", ref="3.5, 4 C19"),
 "C20": dict(engine="schedx", technique="sequential global-state invariant (deep hash of all package-level variables around every call) + preemption-bounded schedule exploration of independent Encode/Decode pairs on the instrumented build with an HB race monitor",
             text="(a) Every Encode/Decode over V1 of all 170 types leaves a deep hash of all 20 package-level variables unchanged; (b) two threads running Encode+Decode of different values (170 self-pairs, 170 cross-type ring pairs, long-then-short text pairs, pairs whose first thread starts with a failing decode; 2-3 threads on each checksum service; cross-protocol and 3-thread frame scenarios in thorough), every execution starting from restored package-level state, under the controlled scheduler, all schedules with <=1 preemption (quick) / <=2 (thorough) at statement granularity: per-thread results equal the sequential ones, no HB race on package-level state, no deadlock.",
             note="shared heap objects reachable only through pointers are covered by result comparison and the -race adjunct, not by the HB monitor; goroutines started by the library itself are not controlled", ref="3.5, 4 C20"),
})

NOT_YET = {
}

def main():
    checks = []
    for pid in sorted(P):
        p = P[pid]
        checks.append({
            "property_id": pid,
            "quick_cmd": "bin/vcheck %s quick" % pid,
            "thorough_cmd": "bin/vcheck %s thorough" % pid,
            "evidence_file": "/verif/evidence/%s.json" % pid,
            "replay_cmd_template": "bin/vcheck replay {path}",
            "engine": p["engine"],
            "level_claimed": {"category": "model_checking", "text": p["text"], "design_ref": "DESIGN.md section " + p["ref"]},
            "level_note": p["note"],
            "technique": p["technique"],
        })
    allp = ["C%02d" % i for i in range(1, 21)]
    na = [{"property_id": x, "reason": NOT_YET.get(x, "check not built yet in this session (planned: bounded-exhaustive exploration, see DESIGN.md section 4); not claimed until it runs")} for x in allp if x not in P]
    doc = {
        "version": 1,
        "setup_cmd": "bin/setup",
        "hooks": {
            "guard": "verif",
            "enable": "no source hooks: checks build /repo through a module replace and, for C19/C20, a go build -overlay that instruments copies of the sources outside /repo",
            "baseline_off_cmd": BASELINE,
            "source_commits": [],
            "add_only": True,
        },
        "engines": [
            {"name": "refmodel", "path": "engine/refmodel", "serves_properties": ["C01", "C02", "C03", "C04", "C05", "C06", "C07", "C08", "C11", "C12"], "kind_free_text": "independent interpreter of the pinned schema + layout walk + bitwise checksum references"},
            {"name": "valenum", "path": "engine/valenum", "serves_properties": ["C01", "C02", "C03", "C17", "C18"], "kind_free_text": "small-scope value enumerator (k deviations from two bases)"},
            {"name": "schedx", "path": "cmd/sched + shim/{vrt,vsync,vatomic} + tools/instrument", "serves_properties": ["C19", "C20"], "kind_free_text": "controlled scheduler, preemption-bounded DFS, overlay instrumenter, vector-clock HB monitor"},
            {"name": "harness", "path": "cmd/harness", "serves_properties": sorted(P), "kind_free_text": "explorers (value / wire / history / automaton) driving the real code"},
        ],
        "checks": checks,
        "not_applicable": na,
        "notes": "All checks rebuild the harness against /repo's working tree (go build with replace => /repo). Exit 2 = harness/build error, never a violation.",
    }
    json.dump(doc, open("/verif/MANIFEST.json", "w"), indent=1)
    print("checks", len(checks), "not_applicable", len(na))

main()
