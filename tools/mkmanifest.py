#!/usr/bin/env python3
"""Writes /verif/MANIFEST.json. Edit BUILT / texts here, then run."""
import json

BASELINE = "cd /repo && GOFLAGS=-mod=mod GOPROXY=off go test -json -vet=off -count=1 -timeout 25m ./..."

P = {
 "C01": dict(engine="valenum+bind", technique="bounded-exhaustive value enumeration (<=k deviating leaves from two bases) through the real Encode/Decode, bitwise oracle",
             text="Every value within k deviating leaves (k=1 quick; 2, and 3 for types with <=10 leaves, thorough) of an all-zero and an all-distinct base, over canonical per-kind alphabets incl. 65,535-element lists, for all 170 pinned types, is encoded and decoded by the real code and compared bitwise. Exhaustive within that bound; says nothing about interactions of more leaves.",
             note="trusts the reflection binding and the canonical-domain filter; computed fields are checked against values derived from the library's own output bytes", ref="4 C01"),
 "C02": dict(engine="refmodel+valenum+wirex", technique="bounded-exhaustive differential check against an independent interpreter of the pinned schema, both directions",
             text="All values within k deviations (incl. non-canonical text) are rendered by the library and by an independent interpreter of schema/pinned/*.json and compared byte-for-byte; every reference wire of V1 and every 1-byte substitution from a 7-byte alphabet is decoded by both and compared (accept/reject, value, consumed).",
             note="the pinned JSON schema is the specification (reverse-engineered once from the pinned commit; byte order pinned per protocol)", ref="4 C02"),
 "C03": dict(engine="prims+refmodel", technique="exhaustive sweep of every BE/LE primitive instantiation x value alphabet; per-integer wire walk of every message type",
             text="All 74 instantiations of the BE/LE primitive pairs (4 prefix types x 10 element kinds, text, text lists, object lists) x the value alphabet satisfy the byte-reversal law and match a reference; every numeric wire segment of every message type over V1 is in the protocol's byte order.",
             note="integer segments are delimited by the primitive's specification", ref="4 C03"),
}

NOT_YET = {
}

def main():
    checks = []
    for pid in sorted(P):
        p = P[pid]
        checks.append({
            "property_id": pid,
            "quick_cmd": "bin/vcheck %s quick" % pid,
            "thorough_cmd": "bin/vcheck %s thorough" % pid,
            "evidence_file": "/verif/evidence/%s.json" % pid,
            "replay_cmd_template": "bin/vcheck replay {path}",
            "engine": p["engine"],
            "level_claimed": {"category": "model_checking", "text": p["text"], "design_ref": "DESIGN.md section " + p["ref"]},
            "level_note": p["note"],
            "technique": p["technique"],
        })
    allp = ["C%02d" % i for i in range(1, 21)]
    na = [{"property_id": x, "reason": NOT_YET.get(x, "check not built yet in this session (planned: bounded-exhaustive exploration, see DESIGN.md section 4); not claimed until it runs")} for x in allp if x not in P]
    doc = {
        "version": 1,
        "setup_cmd": "bin/setup",
        "hooks": {
            "guard": "verif",
            "enable": "no source hooks: checks build /repo through a module replace and, for C19/C20, a go build -overlay that instruments copies of the sources outside /repo",
            "baseline_off_cmd": BASELINE,
            "source_commits": [],
            "add_only": True,
        },
        "engines": [
            {"name": "refmodel", "path": "engine/refmodel", "serves_properties": ["C01", "C02", "C03", "C04", "C05", "C06", "C07", "C08", "C11", "C12"], "kind_free_text": "independent interpreter of the pinned schema + layout walk + bitwise checksum references"},
            {"name": "valenum", "path": "engine/valenum", "serves_properties": ["C01", "C02", "C03", "C17", "C18"], "kind_free_text": "small-scope value enumerator (k deviations from two bases)"},
            {"name": "harness", "path": "cmd/harness", "serves_properties": sorted(P), "kind_free_text": "explorers (value / wire / history / automaton) driving the real code"},
        ],
        "checks": checks,
        "not_applicable": na,
        "notes": "All checks rebuild the harness against /repo's working tree (go build with replace => /repo). Exit 2 = harness/build error, never a violation.",
    }
    json.dump(doc, open("/verif/MANIFEST.json", "w"), indent=1)
    print("checks", len(checks), "not_applicable", len(na))

main()
