#!/usr/bin/env python3
"""One-off schema extractor (provenance only; NEVER run by a check).

Reads the pinned commit of /repo and writes /verif/schema/pinned/<proto>.json.
For each codec type it derives the field list three times independently --
from the struct declaration, from the Encode call sequence and from the Decode
call sequence -- and refuses to emit a type unless all three agree.

Deliberate normalisation (DESIGN 3.1): byte order is recorded per *protocol*
(type-level "order"), not per call site, so a call site of a little-endian
protocol that renders a count or an element big-endian is NOT copied into the
schema.  The two hand-written sample codecs are pinned big-endian by hand.
"""
import json, os, re, sys, glob

REPO = sys.argv[1] if len(sys.argv) > 1 else "/repo"
OUT = sys.argv[2] if len(sys.argv) > 2 else "/verif/schema/pinned"

PROTOS = [
    # dir, short, go package, order, version
    ("sse-bin", "sse", "sse_bin", "big", "sse_bin_v0.57"),
    ("szse-bin", "szse", "szse_bin", "big", "szse_bin_v1.29"),
    ("bjse-trade-bin", "bjse", "bjse_trade_bin", "little", "bse_trade_bin_v0.9"),
    ("risk-bin", "risk", "risk_bin", "big", "risk_v0.1.0"),
    ("sample-bin", "sample", "sample_bin", "little", "sample"),
]

SCALARS = {"int8": "i8", "int16": "i16", "int32": "i32", "int64": "i64",
           "uint8": "u8", "uint16": "u16", "uint32": "u32", "uint64": "u64",
           "byte": "u8", "float32": "f32", "float64": "f64"}


def rune(s):
    s = s.strip()
    assert s[0] == "'" and s[-1] == "'", s
    body = s[1:-1]
    if body.startswith("\\x"):
        return int(body[2:], 16)
    assert len(body) == 1, s
    return ord(body)


def parse_file(path):
    src = open(path).read()
    types = {}
    for m in re.finditer(r"^type (\w+) struct \{\n(.*?)^\}", src, re.S | re.M):
        fields = []
        for line in m.group(2).splitlines():
            line = line.strip()
            if not line:
                continue
            fm = re.match(r"(\w+)\s+(\S+)", line)
            fields.append((fm.group(1), fm.group(2)))
        types[m.group(1)] = fields
    funcs = {}
    for m in re.finditer(r"^func \(\w+ \*(\w+)\) (Encode|Decode)\(buf \*bytes\.Buffer\)[^\n]*\{\n(.*?)^\}", src, re.S | re.M):
        funcs[(m.group(1), m.group(2))] = m.group(3)
    regs = re.findall(r"Registry(\w+)Factory\(([^,]+), func\(\) codec\.BinaryCodec \{ return &(\w+)\{\} \}\)", src)
    factories = re.findall(r"^func (New(\w+)MessageBy(\w+))\(key (\w+)\)", src, re.M)
    regfuncs = re.findall(r"^func (Registry(\w+)Factory)\(", src, re.M)
    caches = re.findall(r"^var (\w+FactoryCache) = ", src, re.M)
    return types, funcs, regs, factories, regfuncs, caches


def enc_fields(body, stype):
    """Encode call sequence -> list of field specs."""
    ftype = dict(stype)
    out = []
    pending_len = False
    checksum_alg = None
    lines = body.splitlines()
    i = 0
    while i < len(lines):
        l = lines[i].strip()
        i += 1
        m = re.search(r"codec\.WriteBasicType(LE)?\(buf, p\.(\w+)\)", l)
        if m:
            f = {"name": m.group(2), "kind": SCALARS[ftype[m.group(2)]], "_le": bool(m.group(1))}
            if checksum_alg:
                f = {"name": m.group(2), "kind": "checksum", "scalar": SCALARS[ftype[m.group(2)]], "alg": checksum_alg, "_le": bool(m.group(1))}
                checksum_alg = None
            out.append(f)
            continue
        m = re.search(r"codec\.WriteBasicType(LE)?\(buf, (\w+)\(0\)\)", l)
        if m:
            # placeholder of a computed length; name comes from the error text on the next line
            nm = re.search(r'"failed to encode %s: %w", "(\w+)"', lines[i])
            out.append({"name": nm.group(1), "kind": "length", "scalar": SCALARS[m.group(2)], "_le": bool(m.group(1))})
            continue
        m = re.search(r"codec\.WriteFixedString\(buf, p\.(\w+), (\d+)\)", l)
        if m:
            out.append({"name": m.group(1), "kind": "fixtext", "width": int(m.group(2)), "pad": 32, "left": False})
            continue
        m = re.search(r"codec\.WriteFixedStringWithPadding\(buf, p\.(\w+), (\d+), ('[^']+'), (true|false)\)", l)
        if m:
            out.append({"name": m.group(1), "kind": "fixtext", "width": int(m.group(2)), "pad": rune(m.group(3)), "left": m.group(4) == "true"})
            continue
        m = re.search(r"codec\.WriteString(LE)?\[(\w+)\]\(buf, p\.(\w+)\)", l)
        if m:
            out.append({"name": m.group(3), "kind": "lentext", "prefix": SCALARS[m.group(2)], "_le": bool(m.group(1))})
            continue
        m = re.search(r"codec\.WriteBasicTypeList(LE)?\[(\w+)\]\(buf, p\.(\w+)\)", l)
        if m:
            et = ftype[m.group(3)]
            assert et.startswith("[]")
            out.append({"name": m.group(3), "kind": "list", "count": SCALARS[m.group(2)], "elem": {"kind": SCALARS[et[2:]]}, "_le": bool(m.group(1))})
            continue
        m = re.search(r"codec\.WriteFixedStringList(LE)?\[(\w+)\]\(buf, p\.(\w+), (\d+)\)", l)
        if m:
            out.append({"name": m.group(3), "kind": "list", "count": SCALARS[m.group(2)], "elem": {"kind": "fixtext", "width": int(m.group(4)), "pad": 32, "left": False}, "_le": bool(m.group(1))})
            continue
        m = re.search(r"codec\.WriteFixedStringListWithPadding(LE)?\[(\w+)\]\(buf, p\.(\w+), (\d+), ('[^']+'), (true|false)\)", l)
        if m:
            out.append({"name": m.group(3), "kind": "list", "count": SCALARS[m.group(2)], "elem": {"kind": "fixtext", "width": int(m.group(4)), "pad": rune(m.group(5)), "left": m.group(6) == "true"}, "_le": bool(m.group(1))})
            continue
        m = re.search(r"codec\.WriteStringList(LE)?\[(\w+), (\w+)\]\(buf, p\.(\w+)\)", l)
        if m:
            out.append({"name": m.group(4), "kind": "list", "count": SCALARS[m.group(2)], "elem": {"kind": "lentext", "prefix": SCALARS[m.group(3)]}, "_le": bool(m.group(1))})
            continue
        m = re.search(r"codec\.WriteObjectList(LE)?\[(\w+)\]\(buf, p\.(\w+)\)", l)
        if m:
            et = ftype[m.group(3)]
            assert et.startswith("[]*")
            out.append({"name": m.group(3), "kind": "list", "count": SCALARS[m.group(2)], "elem": {"kind": "struct", "type": et[3:], "ptr": True}, "_le": bool(m.group(1))})
            continue
        m = re.search(r"if p\.(\w+) == nil \{", l)
        if m and ftype[m.group(1)] == "codec.BinaryCodec":
            fm = re.search(r"(New\w+MessageBy\w+)\(p\.(\w+)\)", lines[i])
            out.append({"name": m.group(1), "kind": "dyn", "factory": fm.group(1), "key": fm.group(2), "nil": "fill"})
            # skip to the Encode call
            while "p.%s.Encode(buf)" % m.group(1) not in lines[i]:
                i += 1
            i += 1
            continue
        m = re.search(r"if p\.(\w+) != nil \{", l)
        if m and ftype[m.group(1)] == "codec.BinaryCodec":
            assert "p.%s.Encode(buf)" % m.group(1) in lines[i]
            i += 1
            out.append({"name": m.group(1), "kind": "dyn", "nil": "skip"})
            continue
        m = re.search(r"p\.(\w+)\.Encode\(buf\)", l)
        if m:
            t = ftype[m.group(1)]
            assert t.startswith("*"), t
            out.append({"name": m.group(1), "kind": "struct", "type": t[1:], "ptr": True})
            continue
        m = re.search(r'codec\.Get\("(\w+)"\)', l)
        if m:
            checksum_alg = m.group(1)
            continue
        if "codec." in l and "Calc(buf)" not in l:
            raise SystemExit("unhandled encode line: " + l)
    return out


def dec_fields(body, stype):
    ftype = dict(stype)
    out = []
    lines = body.splitlines()
    i = 0

    def target(i):
        # the assignment 'p.X = val' within the next 4 lines
        for j in range(i, i + 4):
            m = re.search(r"p\.(\w+) = val", lines[j])
            if m:
                return m.group(1)
        raise SystemExit("no target near: " + lines[i])

    while i < len(lines):
        l = lines[i].strip()
        i += 1
        m = re.search(r"codec\.ReadBasicType(LE)?\[(\w+)\]\(buf\)", l)
        if m:
            out.append({"name": target(i), "kind": SCALARS[m.group(2)], "_le": bool(m.group(1))})
            continue
        m = re.search(r"codec\.ReadFixedString\(buf, (\d+)\)", l)
        if m:
            out.append({"name": target(i), "kind": "fixtext", "width": int(m.group(1)), "pad": 32, "left": False})
            continue
        m = re.search(r"codec\.ReadFixedStringTrimPadding\(buf, (\d+), ('[^']+'), (true|false)\)", l)
        if m:
            out.append({"name": target(i), "kind": "fixtext", "width": int(m.group(1)), "pad": rune(m.group(2)), "left": m.group(3) == "true"})
            continue
        m = re.search(r"codec\.ReadString(LE)?\[(\w+)\]\(buf\)", l)
        if m:
            out.append({"name": target(i), "kind": "lentext", "prefix": SCALARS[m.group(2)], "_le": bool(m.group(1))})
            continue
        m = re.search(r"codec\.ReadBasicTypeList(LE)?\[(\w+), (\w+)\]\(buf\)", l)
        if m:
            out.append({"name": target(i), "kind": "list", "count": SCALARS[m.group(2)], "elem": {"kind": SCALARS[m.group(3)]}, "_le": bool(m.group(1))})
            continue
        m = re.search(r"codec\.ReadFixedStringList(LE)?\[(\w+)\]\(buf, (\d+)\)", l)
        if m:
            out.append({"name": target(i), "kind": "list", "count": SCALARS[m.group(2)], "elem": {"kind": "fixtext", "width": int(m.group(3)), "pad": 32, "left": False}, "_le": bool(m.group(1))})
            continue
        m = re.search(r"codec\.ReadFixedStringListTrimPadding(LE)?\[(\w+)\]\(buf, (\d+), ('[^']+'), (true|false)\)", l)
        if m:
            out.append({"name": target(i), "kind": "list", "count": SCALARS[m.group(2)], "elem": {"kind": "fixtext", "width": int(m.group(3)), "pad": rune(m.group(4)), "left": m.group(5) == "true"}, "_le": bool(m.group(1))})
            continue
        m = re.search(r"codec\.ReadStringList(LE)?\[(\w+), (\w+)\]\(buf\)", l)
        if m:
            out.append({"name": target(i), "kind": "list", "count": SCALARS[m.group(2)], "elem": {"kind": "lentext", "prefix": SCALARS[m.group(3)]}, "_le": bool(m.group(1))})
            continue
        m = re.search(r"codec\.ReadObjectList(LE)?\[(\w+)\]\(buf, func\(\) \*(\w+) \{ return &(\w+)\{\} \}\)", l)
        if m:
            assert m.group(3) == m.group(4)
            out.append({"name": target(i), "kind": "list", "count": SCALARS[m.group(2)], "elem": {"kind": "struct", "type": m.group(3), "ptr": True}, "_le": bool(m.group(1))})
            continue
        m = re.search(r"if val, err := (New\w+MessageBy\w+)\(p\.(\w+)\)", l)
        if m:
            t = target(i)
            out.append({"name": t, "kind": "dyn", "factory": m.group(1), "key": m.group(2)})
            while "p.%s.Decode(buf)" % t not in lines[i]:
                i += 1
            i += 1
            continue
        m = re.search(r"if p\.(\w+) == nil \{", l)
        if m:
            t = ftype[m.group(1)]
            assert t.startswith("*")
            assert ("p.%s = &%s{}" % (m.group(1), t[1:])) in lines[i]
            while "p.%s.Decode(buf)" % m.group(1) not in lines[i]:
                i += 1
            i += 1
            out.append({"name": m.group(1), "kind": "struct", "type": t[1:], "ptr": True})
            continue
        if "codec." in l or ".Decode(" in l:
            raise SystemExit("unhandled decode line: " + l)
    return out


def strip(f):
    return {k: v for k, v in f.items() if not k.startswith("_")}


def main():
    os.makedirs(OUT, exist_ok=True)
    report = []
    for d, short, pkg, order, version in PROTOS:
        alltypes, allfuncs, allregs, allfacts, allregfuncs, allcaches = {}, {}, [], [], [], []
        for path in sorted(glob.glob(os.path.join(REPO, d, "messages", "*.go"))):
            if path.endswith("_test.go"):
                continue
            t, f, r, fa, rf, ca = parse_file(path)
            alltypes.update(t); allfuncs.update(f); allregs += r; allfacts += fa; allregfuncs += rf; allcaches += ca
        # tables
        tables = {}
        for fname, owner, keyname, keytype in allfacts:
            tables[fname] = {"factory": fname, "owner": owner, "keykind": "text" if keytype == "string" else SCALARS[keytype], "entries": {}, "order": []}
        for regname, key, typ in allregs:
            # regname e.g. SseBinaryMsgType / NewOrderApplId ; factory is New<owner>MessageBy<keyname>
            cand = [t for t in tables.values() if t["owner"] + t["factory"].split("MessageBy")[1] == regname]
            assert len(cand) == 1, (regname, [t["factory"] for t in tables.values()])
            k = key.strip().strip('"')
            assert k not in cand[0]["entries"], (regname, k)
            cand[0]["entries"][k] = typ
            cand[0]["order"].append(k)
        for t in tables.values():
            t["register"] = "Registry" + t["owner"] + t["factory"].split("MessageBy")[1] + "Factory"
            assert t["register"] in [x[0] for x in allregfuncs]
        types_out = []
        handwritten = []
        for name in sorted(alltypes):
            if (name, "Encode") not in allfuncs:
                continue
            st = alltypes[name]
            if name in ("RiskControlRequest", "SubOrder"):
                handwritten.append(name)
                continue
            e = enc_fields(allfuncs[(name, "Encode")], st)
            dd = dec_fields(allfuncs[(name, "Decode")], st)
            # agreement 1: names and order vs struct declaration
            assert [f["name"] for f in e] == [n for n, _ in st], (name, "encode order vs struct")
            assert [f["name"] for f in dd] == [n for n, _ in st], (name, "decode order vs struct")
            fields = []
            for fe, fd, (sn, stt) in zip(e, dd, st):
                ce, cd = strip(fe), strip(fd)
                if fe["kind"] in ("length", "checksum"):
                    assert cd["kind"] == fe["scalar"], (name, sn)
                    assert SCALARS[stt] == fe["scalar"], (name, sn)
                elif fe["kind"] == "dyn":
                    assert cd["kind"] == "dyn" and stt == "codec.BinaryCodec"
                    if "factory" in ce:
                        assert ce["factory"] == cd["factory"] and ce["key"] == cd["key"], (name, sn)
                    ce["factory"], ce["key"] = cd["factory"], cd["key"]
                else:
                    assert ce == cd, (name, sn, ce, cd)
                    # struct decl type agreement
                    if ce["kind"] in SCALARS.values():
                        assert SCALARS[stt] == ce["kind"], (name, sn)
                    elif ce["kind"] in ("fixtext", "lentext"):
                        assert stt == "string", (name, sn)
                    elif ce["kind"] == "list":
                        ek = ce["elem"]["kind"]
                        if ek in SCALARS.values():
                            assert SCALARS[stt[2:]] == ek, (name, sn)
                        elif ek == "struct":
                            assert stt == "[]*" + ce["elem"]["type"], (name, sn)
                        else:
                            assert stt == "[]string", (name, sn)
                # byte-order note (informational): call sites that disagree with the protocol order
                le_e, le_d = fe.get("_le"), fd.get("_le")
                if le_e is not None and (le_e != (order == "little") or le_d != (order == "little")):
                    report.append("%s.%s.%s: call-site order enc=%s dec=%s protocol=%s" % (short, name, sn, "LE" if le_e else "BE", "LE" if le_d else "BE", order))
                fields.append(ce)
            types_out.append({"name": name, "order": order, "ctor": "New" + name, "fields": fields})
        if short == "sample":
            types_out.append({"name": "SubOrder", "order": "big", "handwritten": True, "encode_no_error": True, "fields": [
                {"name": "ClOrdID", "kind": "fixtext", "width": 16, "pad": 32, "left": False},
                {"name": "Price", "kind": "u64"},
                {"name": "Qty", "kind": "u32"}]})
            types_out.append({"name": "RiskControlRequest", "order": "big", "handwritten": True, "fields": [
                {"name": "UniqueOrderID", "kind": "lentext", "prefix": "u16"},
                {"name": "ClOrdID", "kind": "fixtext", "width": 16, "pad": 32, "left": False},
                {"name": "MarketID", "kind": "fixtext", "width": 3, "pad": 32, "left": False},
                {"name": "SecurityID", "kind": "fixtext", "width": 12, "pad": 32, "left": False},
                {"name": "Side", "kind": "u8"},
                {"name": "OrderType", "kind": "u8"},
                {"name": "Price", "kind": "u64"},
                {"name": "Qty", "kind": "u32"},
                {"name": "ExtraInfo", "kind": "list", "count": "u16", "elem": {"kind": "lentext", "prefix": "u16"}},
                {"name": "SubOrder", "kind": "struct", "type": "SubOrder", "ptr": False}]})
        types_out.sort(key=lambda t: t["name"])
        doc = {"protocol": short, "version": version, "dir": d, "package": pkg,
               "import": "github.com/xinchentechnote/fin-proto-go/%s/messages" % d,
               "order": order, "types": types_out,
               "tables": sorted(tables.values(), key=lambda t: t["factory"]),
               "caches": sorted(allcaches)}
        json.dump(doc, open(os.path.join(OUT, short + ".json"), "w"), indent=1, sort_keys=False)
        print(short, "types", len(types_out), "tables", len(tables), "keys", sum(len(t["entries"]) for t in tables.values()))
    open(os.path.join(OUT, "..", "callsite_order_notes.txt"), "w").write("\n".join(report) + "\n")
    print("call-site byte-order disagreements:", len(report))


main()
