//go:build vinstr

package main

import (
	"bytes"
	"fmt"
	"hash/fnv"
	"reflect"
	"sort"
	"strings"

	bjse "github.com/xinchentechnote/fin-proto-go/bjse-trade-bin/messages"
	"github.com/xinchentechnote/fin-proto-go/codec"
	risk "github.com/xinchentechnote/fin-proto-go/risk-bin/messages"
	sample "github.com/xinchentechnote/fin-proto-go/sample-bin/messages"
	sse "github.com/xinchentechnote/fin-proto-go/sse-bin/messages"
	szse "github.com/xinchentechnote/fin-proto-go/szse-bin/messages"
	"github.com/xinchentechnote/fin-proto-go/zzverif/vrt"

	"verif/engine/bind"
	"verif/engine/ev"
	rm "verif/engine/refmodel"
	"verif/engine/valenum"
)

// ---- (a) global-state invariant ----

func allGlobals() map[string]map[string]any {
	return map[string]map[string]any{
		"codec": codec.VerifGlobals(), "sse": sse.VerifGlobals(), "szse": szse.VerifGlobals(),
		"bjse": bjse.VerifGlobals(), "risk": risk.VerifGlobals(), "sample": sample.VerifGlobals(),
	}
}

// hashGlobals deep-hashes every package-level variable (maps by sorted key, functions by code pointer,
// synchronisation objects skipped).  perVar, if non-nil, receives one hash per variable.
func hashGlobals(perVar map[string]uint64) uint64 {
	g := allGlobals()
	var pk []string
	for p := range g {
		pk = append(pk, p)
	}
	sort.Strings(pk)
	total := fnv.New64a()
	for _, p := range pk {
		var names []string
		for n := range g[p] {
			names = append(names, n)
		}
		sort.Strings(names)
		for _, n := range names {
			h := fnv.New64a()
			seen := map[uintptr]bool{}
			hashValue(h, reflect.ValueOf(g[p][n]).Elem(), seen, 0)
			if perVar != nil {
				perVar[p+"."+n] = h.Sum64()
			}
			fmt.Fprintf(total, "%s.%s=%x;", p, n, h.Sum64())
		}
	}
	return total.Sum64()
}

type hasher interface{ Write([]byte) (int, error) }

func hashValue(h hasher, v reflect.Value, seen map[uintptr]bool, depth int) {
	if depth > 12 {
		return
	}
	if v.IsValid() && v.Kind() == reflect.Struct {
		pp := v.Type().PkgPath()
		if pp == "sync" || strings.HasSuffix(pp, "zzverif/vsync") || pp == "sync/atomic" || strings.HasSuffix(pp, "zzverif/vatomic") {
			return
		}
	}
	switch v.Kind() {
	case reflect.Invalid:
		fmt.Fprint(h, "<invalid>")
	case reflect.Bool:
		fmt.Fprint(h, v.Bool())
	case reflect.Int, reflect.Int8, reflect.Int16, reflect.Int32, reflect.Int64:
		fmt.Fprint(h, v.Int())
	case reflect.Uint, reflect.Uint8, reflect.Uint16, reflect.Uint32, reflect.Uint64, reflect.Uintptr:
		fmt.Fprint(h, v.Uint())
	case reflect.Float32, reflect.Float64:
		fmt.Fprint(h, v.Float())
	case reflect.String:
		fmt.Fprintf(h, "%q", v.String())
	case reflect.Func:
		if v.IsNil() {
			fmt.Fprint(h, "nilfunc")
		} else {
			fmt.Fprintf(h, "func@%x", v.Pointer())
		}
	case reflect.Ptr:
		if v.IsNil() {
			fmt.Fprint(h, "nilptr")
			return
		}
		if seen[v.Pointer()] {
			fmt.Fprint(h, "cycle")
			return
		}
		seen[v.Pointer()] = true
		fmt.Fprint(h, "&")
		hashValue(h, v.Elem(), seen, depth+1)
	case reflect.Interface:
		if v.IsNil() {
			fmt.Fprint(h, "nilif")
			return
		}
		fmt.Fprintf(h, "(%s)", v.Elem().Type())
		hashValue(h, v.Elem(), seen, depth+1)
	case reflect.Slice, reflect.Array:
		if v.Kind() == reflect.Slice && v.IsNil() {
			fmt.Fprint(h, "nilslice")
			return
		}
		fmt.Fprintf(h, "[%d:", v.Len())
		for i := 0; i < v.Len(); i++ {
			hashValue(h, v.Index(i), seen, depth+1)
			fmt.Fprint(h, ",")
		}
		fmt.Fprint(h, "]")
	case reflect.Map:
		if v.IsNil() {
			fmt.Fprint(h, "nilmap")
			return
		}
		type kv struct {
			k string
			v reflect.Value
		}
		var kvs []kv
		it := v.MapRange()
		for it.Next() {
			kvs = append(kvs, kv{fmt.Sprintf("%v", keyString(it.Key())), it.Value()})
		}
		sort.Slice(kvs, func(i, j int) bool { return kvs[i].k < kvs[j].k })
		fmt.Fprintf(h, "map[%d:", len(kvs))
		for _, e := range kvs {
			fmt.Fprintf(h, "%s=>", e.k)
			hashValue(h, e.v, seen, depth+1)
			fmt.Fprint(h, ";")
		}
		fmt.Fprint(h, "]")
	case reflect.Struct:
		fmt.Fprint(h, "{")
		for i := 0; i < v.NumField(); i++ {
			hashValue(h, v.Field(i), seen, depth+1)
			fmt.Fprint(h, ";")
		}
		fmt.Fprint(h, "}")
	case reflect.Chan, reflect.UnsafePointer:
		fmt.Fprintf(h, "ptr@%x", v.Pointer())
	default:
		fmt.Fprint(h, "?")
	}
}

func keyString(k reflect.Value) string {
	switch k.Kind() {
	case reflect.String:
		return "s" + k.String()
	case reflect.Int, reflect.Int8, reflect.Int16, reflect.Int32, reflect.Int64:
		return fmt.Sprintf("i%020d", k.Int())
	case reflect.Uint, reflect.Uint8, reflect.Uint16, reflect.Uint32, reflect.Uint64:
		return fmt.Sprintf("u%020d", k.Uint())
	}
	return fmt.Sprintf("%v", k)
}

func globalsInvariant(res *shardResult, thorough bool, shard, n int) {
	// warm-up pass: every call once, so that one-time, idempotent initialisation (e.g. a table built under
	// sync.Once at first use) has happened; the invariant is then that NO later call changes package-level state
	for idx, t := range bind.Types {
		if idx%n != shard {
			continue
		}
		valenum.Enum(t, valenum.Opts{K: 1, Big: false}, func(c *valenum.Case) bool {
			msg := bind.MustReal(c.V)
			buf := &bytes.Buffer{}
			func() {
				defer func() { recover() }()
				_ = bind.Encode(msg, buf)
				_ = bind.Decode(bind.New(t), buf)
			}()
			return c.NDev == 0 // the two bases suffice to trigger first-use initialisation
		})
	}
	per := map[string]uint64{}
	before := hashGlobals(per)
	res.Globals = map[string]int{}
	for p, g := range allGlobals() {
		res.Globals[p] = len(g)
	}
	for idx, t := range bind.Types {
		if idx%n != shard {
			continue
		}
		valenum.Enum(t, valenum.Opts{K: 1, Big: false}, func(c *valenum.Case) bool {
			msg := bind.MustReal(c.V)
			buf := &bytes.Buffer{}
			func() {
				defer func() { recover() }()
				_ = bind.Encode(msg, buf)
			}()
			res.Extra["globals_invariant_calls"]++
			if h := hashGlobals(nil); h != before {
				res.Violations = append(res.Violations, globalsViolation(t, "Encode", c, per))
				return false
			}
			recv := bind.New(t)
			func() {
				defer func() { recover() }()
				_ = bind.Decode(recv, buf)
			}()
			res.Extra["globals_invariant_calls"]++
			if h := hashGlobals(nil); h != before {
				res.Violations = append(res.Violations, globalsViolation(t, "Decode", c, per))
				return false
			}
			return true
		})
	}
}

func globalsViolation(t *rm.Type, what string, c *valenum.Case, before map[string]uint64) *ev.Violation {
	after := map[string]uint64{}
	hashGlobals(after)
	var changed []string
	for k, v := range after {
		if before[k] != v {
			changed = append(changed, k)
		}
	}
	sort.Strings(changed)
	return &ev.Violation{Property: "C20", Kind: "global-state-changed", Subject: t.QName() + " " + what + " " + strings.Join(changed, ","),
		Detail: fmt.Sprintf("%s of %s (base %s dev {%s}) changed package-level state: %v", what, t.QName(), c.Base, c.Desc, changed),
		Replay: map[string]any{"op": "globals", "type": t.QName(), "value": rm.ToJSON(c.V), "call": what}}
}

// ---- (b) schedule exploration of independent Encode/Decode pairs ----

type codecResult struct {
	bytes  []byte
	encErr string
	decErr string
	value  *rm.Value
}

func runCodec(v *rm.Value) *codecResult {
	msg := bind.MustReal(v)
	buf := &bytes.Buffer{}
	r := &codecResult{}
	if err := bind.Encode(msg, buf); err != nil {
		r.encErr = err.Error()
	}
	r.bytes = append([]byte{}, buf.Bytes()...)
	recv := bind.New(v.Type)
	if err := bind.Decode(recv, buf); err != nil {
		r.decErr = err.Error()
	} else {
		r.value = bind.MustFrom(v.Type, recv)
	}
	return r
}

func sameResult(a, b *codecResult) string {
	if !bytes.Equal(a.bytes, b.bytes) {
		return fmt.Sprintf("bytes differ: %x vs %x", clipB(a.bytes), clipB(b.bytes))
	}
	if a.encErr != b.encErr || a.decErr != b.decErr {
		return fmt.Sprintf("errors differ: %q/%q vs %q/%q", a.encErr, a.decErr, b.encErr, b.decErr)
	}
	if d := rm.Diff(a.value, b.value, ""); d != "" {
		return "decoded values differ at " + d
	}
	return ""
}

func clipB(b []byte) []byte {
	if len(b) > 64 {
		return b[:64]
	}
	return b
}

func pairScenario(name string, vals []*rm.Value) *scenario {
	// sequential expectation, computed once with no scheduler active
	want := make([]*codecResult, len(vals))
	for i, v := range vals {
		want[i] = runCodec(v)
	}
	return &scenario{Name: name, Setup: func() ([]func(), func(x *vrt.Exec) *finding) {
		restoreGlobals() // package-level state is part of the state space: every execution starts from the same values
		got := make([]*codecResult, len(vals))
		bodies := make([]func(), len(vals))
		for i, v := range vals {
			i, v := i, v
			bodies[i] = func() { got[i] = runCodec(v) }
		}
		return bodies, func(x *vrt.Exec) *finding {
			for i := range vals {
				if got[i] == nil {
					return &finding{Kind: "thread-did-not-finish", Detail: fmt.Sprint("thread ", i)}
				}
				if d := sameResult(want[i], got[i]); d != "" {
					return &finding{Kind: "result-differs-from-sequential", Detail: fmt.Sprintf("thread %d (%s): %s", i, vals[i].Type.QName(), d)}
				}
			}
			return nil
		}
	}}
}

// sessionScenario: every thread runs its own Encode+Decode `rounds` times in a row on fresh objects: whatever a thread's
// first call leaves behind in the library (a cached look-up, a warmed scratch area) is there when its second call
// runs, possibly replaced in between by the other thread; every round must equal the sequential result.
func sessionScenario(name string, vals []*rm.Value, rounds int) *scenario {
	want := make([]*codecResult, len(vals))
	for i, v := range vals {
		want[i] = runCodec(v)
	}
	return &scenario{Name: name, Setup: func() ([]func(), func(x *vrt.Exec) *finding) {
		restoreGlobals()
		got := make([][]*codecResult, len(vals))
		bodies := make([]func(), len(vals))
		for i, v := range vals {
			i, v := i, v
			bodies[i] = func() {
				for k := 0; k < rounds; k++ {
					got[i] = append(got[i], runCodec(v))
				}
			}
		}
		return bodies, func(x *vrt.Exec) *finding {
			for i := range vals {
				if len(got[i]) != rounds {
					return &finding{Kind: "thread-did-not-finish", Detail: fmt.Sprint("thread ", i)}
				}
				for k, g := range got[i] {
					if d := sameResult(want[i], g); d != "" {
						return &finding{Kind: "result-differs-from-sequential", Detail: fmt.Sprintf("thread %d (%s) round %d: %s", i, vals[i].Type.QName(), k+1, d)}
					}
				}
			}
			return nil
		}
	}}
}

func c20Plan(thorough bool) *plan {
	snapshotGlobals()
	var scs []*scenario
	for _, t := range bind.Types {
		scs = append(scs, pairScenario(t.QName()+" x "+t.QName(), []*rm.Value{valenum.Distinct(t), valenum.Long(t)}))
	}
	// a message that starts with a long (600-byte) text and continues with short ones, next to a short-text message:
	// scratch space that is sized, swapped or pooled on the long path and then shared on the short path shows here
	for _, t := range bind.Types {
		if mv, ok := valenum.Mixed(t); ok {
			scs = append(scs, pairScenario(t.QName()+" long-then-short x "+t.QName(), []*rm.Value{mv, valenum.Distinct(t)}))
		}
	}
	// a decode that FAILS midway (a message cut inside its last third) before the normal work of one thread: error
	// paths that hand scratch space back twice, or leave it dirty, poison what the other thread uses afterwards
	for _, t := range bind.Types {
		w, err := rm.EncodeBytes(valenum.Long(t))
		if err != nil || len(w) < 3 {
			continue
		}
		scs = append(scs, failedDecodeScenario(t, w[:len(w)-1-len(w)/3]))
	}
	// a ring of cross-type pairs (each type with the next one, across protocol boundaries at the seams)
	for i, t := range bind.Types {
		u := bind.Types[(i+1)%len(bind.Types)]
		scs = append(scs, pairScenario(t.QName()+" x "+u.QName(), []*rm.Value{valenum.Distinct(t), valenum.Distinct(u)}))
	}
	// "any mix of protocols": every pair of the five frame types (and each with itself), each thread running two
	// rounds; the frames share the checksum-service registry and their protocol's discriminator tables
	{
		frames := map[string]*rm.Type{}
		for _, t := range bind.Types {
			if t.DynField() >= 0 && t.Proto.Table(t.Fields[t.DynField()].Factory).KeyKind != "text" {
				frames[t.Proto.Protocol] = t
			}
		}
		names := []string{"sse", "szse", "bjse", "risk", "sample"}
		for i := range names {
			for j := i; j < len(names); j++ {
				a, b := frames[names[i]], frames[names[j]]
				if a == nil || b == nil {
					continue
				}
				scs = append(scs, sessionScenario(a.QName()+" x "+b.QName()+" sessions of 2", []*rm.Value{valenum.Distinct(a), valenum.Distinct(b)}, 2))
			}
		}
	}
	if thorough {
		// one cross-protocol pair per pair of packages, using the frame types (they share the checksum registry's read lock)
		frames := map[string]*rm.Type{}
		for _, t := range bind.Types {
			if t.DynField() >= 0 && t.Proto.Table(t.Fields[t.DynField()].Factory).KeyKind != "text" {
				frames[t.Proto.Protocol] = t
			}
		}
		names := []string{"sse", "szse", "bjse", "risk", "sample"}
		for i := range names {
			for j := i + 1; j < len(names); j++ {
				a, b := frames[names[i]], frames[names[j]]
				scs = append(scs, pairScenario(a.QName()+" x "+b.QName(), []*rm.Value{valenum.Distinct(a), valenum.Distinct(b)}))
			}
		}
		// three threads on the three checksummed frames
		scs = append(scs, pairScenario("sse x szse x sample frames", []*rm.Value{valenum.Distinct(frames["sse"]), valenum.Distinct(frames["szse"]), valenum.Distinct(frames["sample"])}))
	}
	// the checksum services themselves: two (three) threads computing checksums of different inputs at the same time,
	// starting from the pristine package state (a table built lazily at first use is built inside the explored schedule)
	for _, alg := range []string{"CRC16", "CRC32", "SSE_BIN", "SZSE_BIN"} {
		scs = append(scs, checksumScenario(alg, 2), checksumScenario(alg, 3))
	}
	p := &plan{scenarios: scs, outcome: func(x *vrt.Exec) string { return "ok" }}
	if thorough {
		p.bounds, p.caps = []int{2, 1}, []int64{40000, 1 << 40}
	} else {
		p.bounds, p.caps = []int{1}, []int64{1 << 40}
	}
	p.pre = func(res *shardResult, shard, n int) { globalsInvariant(res, thorough, shard, n) }
	return p
}

// replayGlobals re-executes one Encode or Decode and reports which package-level variables changed.
func replayGlobals(path string, v *ev.Violation) int {
	t := bind.TypeByQName(v.Replay["type"].(string))
	val, err := rm.FromJSON(v.Replay["value"], bind.TypeByQName)
	if t == nil || err != nil {
		fmt.Println("replay: bad record:", err)
		return 2
	}
	before := map[string]uint64{}
	hashGlobals(before)
	msg := bind.MustReal(val)
	buf := &bytes.Buffer{}
	func() {
		defer func() { recover() }()
		_ = bind.Encode(msg, buf)
		if v.Replay["call"] == "Decode" {
			_ = bind.Decode(bind.New(t), buf)
		}
	}()
	after := map[string]uint64{}
	hashGlobals(after)
	var changed []string
	for k, h := range after {
		if before[k] != h {
			changed = append(changed, k)
		}
	}
	sort.Strings(changed)
	if len(changed) == 0 {
		fmt.Println("replay: property C20 holds on this case (no package-level variable changed)")
		return 0
	}
	fmt.Printf("VIOLATION property=C20 replay=%s\n  global-state-changed: %v\n", path, changed)
	return 1
}

func calcService(alg string, data []byte) (int64, bool) {
	svc, ok := codec.Get(alg)
	if !ok {
		return 0, false
	}
	buf := bytes.NewBuffer(data)
	switch x := svc.(type) {
	case codec.ChecksumService[*bytes.Buffer, uint16]:
		return int64(x.Calc(buf)), true
	case codec.ChecksumService[*bytes.Buffer, uint32]:
		return int64(x.Calc(buf)), true
	case codec.ChecksumService[*bytes.Buffer, int32]:
		return int64(x.Calc(buf)), true
	}
	return 0, false
}

func checksumScenario(alg string, threads int) *scenario {
	inputs := [][]byte{[]byte("123456789"), {0xFF, 0x80, 0x01, 0x7F, 0x00, 0xA5}, bytes.Repeat([]byte{0xC3, 0x3C}, 40)}[:threads]
	return &scenario{Name: fmt.Sprintf("checksum %s x%d", alg, threads), Setup: func() ([]func(), func(x *vrt.Exec) *finding) {
		restoreGlobals()
		got := make([]int64, threads)
		okv := make([]bool, threads)
		bodies := make([]func(), threads)
		for i := range bodies {
			i := i
			bodies[i] = func() { got[i], okv[i] = calcService(alg, append([]byte{}, inputs[i]...)) }
		}
		return bodies, func(x *vrt.Exec) *finding {
			for i := range bodies {
				want := int64(rm.Checksum(alg, inputs[i]))
				if !okv[i] || got[i] != want {
					return &finding{Kind: "result-differs-from-sequential", Detail: fmt.Sprintf("thread %d: %s over %x = %d (service found: %v), reference %d", i, alg, inputs[i], got[i], okv[i], want)}
				}
			}
			return nil
		}
	}}
}

func failedDecodeScenario(t *rm.Type, cut []byte) *scenario {
	vals := []*rm.Value{valenum.Distinct(t), valenum.Distinct(t)}
	want := []*codecResult{runCodec(vals[0]), runCodec(vals[1])}
	return &scenario{Name: t.QName() + " after-failed-decode x " + t.QName(), Setup: func() ([]func(), func(x *vrt.Exec) *finding) {
		restoreGlobals()
		got := make([]*codecResult, 2)
		bodies := []func(){
			func() {
				func() {
					defer func() { recover() }()
					_ = bind.Decode(bind.New(t), bytes.NewBuffer(append([]byte{}, cut...)))
				}()
				got[0] = runCodec(vals[0])
			},
			func() { got[1] = runCodec(vals[1]) },
		}
		return bodies, func(x *vrt.Exec) *finding {
			for i := range got {
				if got[i] == nil {
					return &finding{Kind: "thread-did-not-finish", Detail: fmt.Sprint("thread ", i)}
				}
				if d := sameResult(want[i], got[i]); d != "" {
					return &finding{Kind: "result-differs-from-sequential", Detail: fmt.Sprintf("thread %d (%s): %s", i, t.QName(), d)}
				}
			}
			return nil
		}
	}}
}
