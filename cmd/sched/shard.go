//go:build vinstr

package main

import (
	"encoding/json"
	"fmt"
	"os"
	"strings"
	"time"

	"github.com/xinchentechnote/fin-proto-go/zzverif/vrt"

	"verif/engine/ev"
)

type plan struct {
	scenarios []*scenario
	outcome   func(x *vrt.Exec) string
	// bounds to try in order: the first that completes under its cap wins
	bounds      []int
	caps        []int64
	pre         func(res *shardResult, shard, n int) // sequential leg (C20a)
	shardBudget int64                                // max executions per shard before falling back to bound 1 (0 = none)
}

func planFor(id string, thorough bool) *plan {
	switch id {
	case "C19":
		p := &plan{scenarios: c19Scenarios(thorough), outcome: regOutcome, bounds: []int{-1, 2}, caps: []int64{30000, 300000}, shardBudget: 800000}
		d := 5 // 17 operations: 1.5 M sequences (a counter/epoch scheme confused by Clear needs hit, Clear, refill, look-up)
		if thorough {
			d = 6
		}
		p.pre = func(res *shardResult, shard, n int) {
			if shard == 0 {
				sequentialRegistryModel(res, d)
			}
		}
		if thorough {
			p.bounds, p.caps = []int{-1, 3, 2}, []int64{200000, 3000000, 2000000}
			p.shardBudget = 8000000
		}
		return p
	case "C20":
		return c20Plan(thorough)
	}
	fmt.Fprintln(os.Stderr, "unknown check", id)
	os.Exit(2)
	return nil
}

func runShard(id string, thorough bool, shard, n int) *shardResult {
	p := planFor(id, thorough)
	res := &shardResult{OutcomesMin: 1 << 30, Extra: map[string]int64{}}
	if p.pre != nil {
		p.pre(res, shard, n)
	}
	deadline := time.Now().Add(8 * time.Minute)
	if thorough {
		deadline = time.Now().Add(60 * time.Minute)
	}
	for idx, sc := range p.scenarios {
		if idx%n != shard {
			continue
		}
		if time.Now().After(deadline) {
			// internal deadline (only reached on trees that are far more expensive to explore than the pinned one):
			// stop, report what was covered, never an alarm by itself
			res.Capped++
			res.Extra["scenarios_not_explored_internal_deadline"]++
			continue
		}
		if len(res.Violations) >= 5 || (len(res.Violations) >= 1 && p.shardBudget > 0 && res.Execs > p.shardBudget/4) {
			break // counterexamples in hand and the tree is expensive to explore: stop this shard
		}
		res.Scenarios++
		var st *exploreStats
		if res.Execs > p.shardBudget && p.shardBudget > 0 {
			// execution budget of this shard used up (only happens on changed trees whose code has far more scheduling
			// points): the remaining scenarios are explored to preemption bound 1 with a small cap, reported as capped
			st = explore(sc, 1, 300, p.outcome)
			res.Execs += st.Execs
			res.Steps += st.Steps
			res.Extra["scenarios_explored_after_budget_exhausted"]++
			st.Capped = true
		} else {
			for bi, b := range p.bounds {
				if b < 0 && (strings.HasPrefix(sc.Name, "3x2 ") || strings.HasPrefix(sc.Name, "4x1 ")) {
					continue // 3 threads x 2 ops: preemption bound 2 directly (the unbounded space is ~10^5..10^6 schedules each)
				}
				st = explore(sc, b, p.caps[bi], p.outcome)
				res.Execs += st.Execs
				res.Steps += st.Steps
				if st.Finding != nil || !st.Capped {
					break
				}
			}
		}
		if st.MaxPoints > res.MaxPoints {
			res.MaxPoints = st.MaxPoints
		}
		if st.MaxShared > 0 {
			res.Extra["scenarios_where_threads_touched_a_common_package_level_location"]++
		}
		if st.Finding != nil {
			// replay the schedule twice: the same schedule must fail every time
			repro := 0
			for k := 0; k < 5; k++ {
				if _, f := runOnce(sc, st.FindingSch, nil); f != nil && f.Kind == st.Finding.Kind {
					repro++
				}
			}
			note := ""
			if repro < 5 {
				note = fmt.Sprintf(" [reproduced in %d of 5 replays: the code under test is not deterministic under a fixed schedule (e.g. it iterates over a map; %d explored executions diverged from their recorded prefix); the observed execution stands as the counterexample]", repro, st.Diverged)
			}
			st.Finding.Detail += note
			res.Violations = append(res.Violations, &ev.Violation{Property: id, Kind: st.Finding.Kind, Subject: subjectOf(id, sc, st.Finding),
				Detail: fmt.Sprintf("scenario [%s] schedule %v (preemption bound %s): %s", sc.Name, st.FindingSch, boundStr(st.Bound), st.Finding.Detail),
				Replay: map[string]any{"op": "schedule", "check": id, "scenario": sc.Name, "index": idx, "schedule": st.FindingSch, "thorough": thorough}})
			continue
		}
		if st.Diverged > 0 {
			res.Extra["executions_diverged_from_recorded_prefix"] += st.Diverged
			res.Capped++ // not exhaustive for this scenario
		} else if st.Capped {
			res.Capped++
		} else if st.Bound < 0 {
			res.Unbounded++
		} else {
			res.Bounded++
		}
		k := len(st.Outcomes)
		res.OutcomesSum += int64(k)
		if k < res.OutcomesMin {
			res.OutcomesMin = k
		}
		if k > res.OutcomesMax {
			res.OutcomesMax = k
		}
		if k > 1 {
			res.MultiOutcome++
		}
		if len(res.Samples) < 1 && shard < 4 {
			smp := map[string]any{"scenario": sc.Name, "schedules": st.Execs, "distinct_outcomes": k, "max_points": st.MaxPoints, "bound": boundStr(st.Bound)}
			if id == "C19" && lastHist != nil {
				smp["last_explored_history"] = histString(lastHist)
			}
			res.Samples = append(res.Samples, smp)
		}
	}
	return res
}

func boundStr(b int) string {
	if b < 0 {
		return "none"
	}
	return fmt.Sprint(b)
}

func subjectOf(id string, sc *scenario, f *finding) string {
	if id == "C20" {
		return sc.Name + " " + f.Kind
	}
	return f.Kind + " " + firstWords(f.Detail, 6)
}

func firstWords(s string, n int) string {
	c := 0
	for i, r := range s {
		if r == ' ' {
			c++
			if c == n {
				return s[:i]
			}
		}
	}
	return s
}

func replaySched(path string) int {
	b, err := os.ReadFile(path)
	if err != nil {
		fmt.Fprintln(os.Stderr, err)
		return 2
	}
	var v ev.Violation
	if err := json.Unmarshal(b, &v); err != nil {
		fmt.Fprintln(os.Stderr, err)
		return 2
	}
	if op, _ := v.Replay["op"].(string); op == "globals" {
		return replayGlobals(path, &v)
	}
	id, _ := v.Replay["check"].(string)
	if id == "" {
		fmt.Fprintln(os.Stderr, "replay: this record has no schedule (", v.Kind, ")")
		return 2
	}
	th, _ := v.Replay["thorough"].(bool)
	p := planFor(id, th)
	name := v.Replay["scenario"].(string)
	var sched []int
	for _, c := range v.Replay["schedule"].([]any) {
		sched = append(sched, int(c.(float64)))
	}
	for _, sc := range p.scenarios {
		if sc.Name != name {
			continue
		}
		_, f := runOnce(sc, sched, nil)
		if f != nil && f.Kind == "harness-nondeterminism" {
			// the recorded schedule is not a schedule of this tree (its scheduling points differ from the tree the
			// violation was found on): explore the whole scenario instead
			fmt.Println("replay: the recorded schedule is not feasible on this tree; exploring the scenario exhaustively instead")
			st := explore(sc, p.bounds[len(p.bounds)-1], p.caps[len(p.caps)-1], p.outcome)
			f = st.Finding
			if f == nil {
				fmt.Printf("replay: property %s holds on all %d schedules of scenario [%s]\n", id, st.Execs, sc.Name)
				return 0
			}
		}
		if f == nil {
			fmt.Printf("replay: property %s holds on this schedule\n", id)
			return 0
		}
		fmt.Printf("VIOLATION property=%s replay=%s\n  %s: %s\n", id, path, f.Kind, f.Detail)
		return 1
	}
	fmt.Fprintln(os.Stderr, "replay: scenario not found:", name)
	return 2
}
