//go:build vinstr

package main

import (
	"encoding/json"
	"fmt"
	"os"

	"github.com/xinchentechnote/fin-proto-go/zzverif/vrt"

	"verif/engine/ev"
)

type plan struct {
	scenarios []*scenario
	outcome   func(x *vrt.Exec) string
	// bounds to try in order: the first that completes under its cap wins
	bounds []int
	caps   []int64
	pre    func(res *shardResult, shard, n int) // sequential leg (C20a)
}

func planFor(id string, thorough bool) *plan {
	switch id {
	case "C19":
		p := &plan{scenarios: c19Scenarios(thorough), outcome: regOutcome, bounds: []int{-1, 2}, caps: []int64{30000, 300000}}
		if thorough {
			p.caps = []int64{200000, 2000000}
		}
		return p
	case "C20":
		return c20Plan(thorough)
	}
	fmt.Fprintln(os.Stderr, "unknown check", id)
	os.Exit(2)
	return nil
}

func runShard(id string, thorough bool, shard, n int) *shardResult {
	p := planFor(id, thorough)
	res := &shardResult{OutcomesMin: 1 << 30, Extra: map[string]int64{}}
	if p.pre != nil {
		p.pre(res, shard, n)
	}
	for idx, sc := range p.scenarios {
		if idx%n != shard {
			continue
		}
		if len(res.Violations) >= 5 {
			break
		}
		res.Scenarios++
		var st *exploreStats
		for bi, b := range p.bounds {
			st = explore(sc, b, p.caps[bi], p.outcome)
			res.Execs += st.Execs
			res.Steps += st.Steps
			if st.Finding != nil || !st.Capped {
				break
			}
		}
		if st.MaxPoints > res.MaxPoints {
			res.MaxPoints = st.MaxPoints
		}
		if st.MaxShared > 0 {
			res.Extra["scenarios_where_threads_touched_a_common_package_level_location"]++
		}
		if st.Finding != nil {
			// replay the schedule twice: the same schedule must fail every time
			_, f1 := runOnce(sc, st.FindingSch, nil)
			_, f2 := runOnce(sc, st.FindingSch, nil)
			if f1 == nil || f2 == nil || f1.Kind != st.Finding.Kind || f2.Kind != st.Finding.Kind {
				fmt.Fprintf(os.Stderr, "harness error: violation in %q did not reproduce under replay (%v / %v / %v)\n", sc.Name, st.Finding, f1, f2)
				os.Exit(2)
			}
			res.Violations = append(res.Violations, &ev.Violation{Property: id, Kind: st.Finding.Kind, Subject: subjectOf(id, sc, st.Finding),
				Detail: fmt.Sprintf("scenario [%s] schedule %v (preemption bound %s): %s", sc.Name, st.FindingSch, boundStr(st.Bound), st.Finding.Detail),
				Replay: map[string]any{"op": "schedule", "check": id, "scenario": sc.Name, "index": idx, "schedule": st.FindingSch, "thorough": thorough}})
			continue
		}
		if st.Capped {
			res.Capped++
		} else if st.Bound < 0 {
			res.Unbounded++
		} else {
			res.Bounded++
		}
		k := len(st.Outcomes)
		res.OutcomesSum += int64(k)
		if k < res.OutcomesMin {
			res.OutcomesMin = k
		}
		if k > res.OutcomesMax {
			res.OutcomesMax = k
		}
		if k > 1 {
			res.MultiOutcome++
		}
		if len(res.Samples) < 1 && shard < 4 {
			res.Samples = append(res.Samples, map[string]any{"scenario": sc.Name, "schedules": st.Execs, "distinct_outcomes": k, "max_points": st.MaxPoints, "bound": boundStr(st.Bound)})
		}
	}
	return res
}

func boundStr(b int) string {
	if b < 0 {
		return "none"
	}
	return fmt.Sprint(b)
}

func subjectOf(id string, sc *scenario, f *finding) string {
	if id == "C20" {
		return sc.Name + " " + f.Kind
	}
	return f.Kind + " " + firstWords(f.Detail, 6)
}

func firstWords(s string, n int) string {
	c := 0
	for i, r := range s {
		if r == ' ' {
			c++
			if c == n {
				return s[:i]
			}
		}
	}
	return s
}

func replaySched(path string) int {
	b, err := os.ReadFile(path)
	if err != nil {
		fmt.Fprintln(os.Stderr, err)
		return 2
	}
	var v ev.Violation
	if err := json.Unmarshal(b, &v); err != nil {
		fmt.Fprintln(os.Stderr, err)
		return 2
	}
	if op, _ := v.Replay["op"].(string); op == "globals" {
		return replayGlobals(path, &v)
	}
	id, _ := v.Replay["check"].(string)
	if id == "" {
		fmt.Fprintln(os.Stderr, "replay: this record has no schedule (", v.Kind, ")")
		return 2
	}
	th, _ := v.Replay["thorough"].(bool)
	p := planFor(id, th)
	name := v.Replay["scenario"].(string)
	var sched []int
	for _, c := range v.Replay["schedule"].([]any) {
		sched = append(sched, int(c.(float64)))
	}
	for _, sc := range p.scenarios {
		if sc.Name != name {
			continue
		}
		_, f := runOnce(sc, sched, nil)
		if f == nil {
			fmt.Printf("replay: property %s holds on this schedule\n", id)
			return 0
		}
		fmt.Printf("VIOLATION property=%s replay=%s\n  %s: %s\n", id, path, f.Kind, f.Detail)
		return 1
	}
	fmt.Fprintln(os.Stderr, "replay: scenario not found:", name)
	return 2
}
