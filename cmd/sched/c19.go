//go:build vinstr

package main

import (
	"fmt"
	"sort"
	"strings"

	"github.com/xinchentechnote/fin-proto-go/codec"
	"github.com/xinchentechnote/fin-proto-go/zzverif/vrt"

	"verif/engine/ev"
)

// ---- registry operations and the sequential reference model (a plain map) ----

type tsvc struct {
	name string
	id   int
}

func (s *tsvc) Algorithm() string { return s.name }

type notAService struct{ x int }

type regOp struct {
	Kind string // reg get rem clear regbad
	Name string
	ID   int
}

func (o regOp) String() string {
	switch o.Kind {
	case "reg":
		return fmt.Sprintf("Reg(%s,%d)", o.Name, o.ID)
	case "get":
		return "Get(" + o.Name + ")"
	case "rem":
		return "Rem(" + o.Name + ")"
	case "clear":
		return "Clear"
	}
	return "Reg(non-service)"
}

var regAlphabet = []regOp{{"reg", "A", 1}, {"reg", "A", 2}, {"reg", "B", 3}, {"get", "A", 0}, {"get", "B", 0}, {"rem", "A", 0}, {"clear", "", 0}, {"regbad", "", 0}}

type opRec struct {
	Thread    int
	Op        regOp
	Call, Ret int
	Result    string
}

// services by id (pointer identity matters: Get must return the registered object)
var svcByID = map[int]*tsvc{}

func svc(name string, id int) *tsvc {
	if s, ok := svcByID[id]; ok {
		return s
	}
	s := &tsvc{name, id}
	svcByID[id] = s
	return s
}

// apply runs one operation on the real registry.
func applyReal(o regOp) string {
	switch o.Kind {
	case "reg":
		return fmt.Sprint(codec.Registry(svc(o.Name, o.ID)))
	case "regbad":
		return fmt.Sprint(codec.Registry(&notAService{1}))
	case "get":
		s, ok := codec.Get(o.Name)
		if !ok {
			if s != nil {
				return "absent-but-non-nil"
			}
			return "absent"
		}
		if t, isT := s.(*tsvc); isT {
			if t != svcByID[t.id] {
				return "foreign-object"
			}
			if t.name != o.Name {
				return fmt.Sprintf("wrong-name:%s", t.name)
			}
			return fmt.Sprint(t.id)
		}
		if a, isA := s.(interface{ Algorithm() string }); isA {
			if a.Algorithm() != o.Name {
				return "wrong-name:" + a.Algorithm()
			}
			return "builtin:" + a.Algorithm()
		}
		return "garbage"
	case "rem":
		codec.Remove(o.Name)
		return ""
	case "clear":
		codec.Clear()
		return ""
	}
	panic("op")
}

// applyModel runs one operation on the reference model.
func applyModel(m map[string]string, o regOp) string {
	switch o.Kind {
	case "reg":
		if _, ok := m[o.Name]; ok {
			return "false"
		}
		m[o.Name] = fmt.Sprint(o.ID)
		return "true"
	case "regbad":
		return "false"
	case "get":
		if v, ok := m[o.Name]; ok {
			return v
		}
		return "absent"
	case "rem":
		delete(m, o.Name)
		return ""
	case "clear":
		for k := range m {
			delete(m, k)
		}
		return ""
	}
	panic("op")
}

var builtins = []any{&codec.Crc16ChecksumService{}, &codec.Crc32ChecksumService{}, &codec.SseBinChecksumService{}, &codec.SzseBinChecksumService{}}

// initial states
func setInitial(kind int) map[string]string {
	codec.Clear()
	m := map[string]string{}
	if kind == 300 {
		// a registry holding 64 short names ("A".."Z", "0".."9", "A0".."G3"): implementations that index by a small hash of the
		// name put some of them into the same slot
		for i, n := range manyNames {
			codec.Registry(svc(n, 300+i))
			m[n] = fmt.Sprint(300 + i)
		}
		return m
	}
	if kind >= 100 {
		// a non-initial start state: {A} registered and then kind-100 sequential look-ups already served
		// (counters, caches or snapshots that only switch on after some traffic are in their "warm" state)
		codec.Registry(svc("A", 9))
		m["A"] = "9"
		for i := 0; i < kind-100; i++ {
			codec.Get("A")
		}
		return m
	}
	switch kind {
	case 1:
		codec.Registry(svc("A", 9))
		m["A"] = "9"
	case 2:
		for _, b := range builtins {
			codec.Registry(b)
			n := b.(interface{ Algorithm() string }).Algorithm()
			m[n] = "builtin:" + n
		}
	}
	return m
}

// linearizable: is there a total order of the operations, consistent with real-time precedence, that the map model explains?
func linearizable(init map[string]string, hist []*opRec) bool {
	n := len(hist)
	used := make([]bool, n)
	var rec func(m map[string]string, done int) bool
	rec = func(m map[string]string, done int) bool {
		if done == n {
			return true
		}
		for i := 0; i < n; i++ {
			if used[i] {
				continue
			}
			// i may go next only if no unused op returned before i was called
			ok := true
			for j := 0; j < n; j++ {
				if !used[j] && j != i && precedes(hist[j], hist[i]) {
					ok = false
					break
				}
			}
			if !ok {
				continue
			}
			m2 := map[string]string{}
			for k, v := range m {
				m2[k] = v
			}
			if applyModel(m2, hist[i].Op) != hist[i].Result {
				continue
			}
			used[i] = true
			if rec(m2, done+1) {
				used[i] = false
				return true
			}
			used[i] = false
		}
		return false
	}
	return rec(init, 0)
}

// precedes: a returned before b was called.  Call/Ret are positions in the single global event order
// (threads run one at a time under the scheduler, so that order is total).
func precedes(a, b *opRec) bool { return a.Ret < b.Call }

func histString(h []*opRec) string {
	var parts []string
	for _, r := range h {
		parts = append(parts, fmt.Sprintf("t%d:%s=%s[%d,%d]", r.Thread, r.Op, r.Result, r.Call, r.Ret))
	}
	return strings.Join(parts, " ")
}

// registryScenario: threads run their programs on the real registry; afterwards main reads A, B and a built-in name.
func registryScenario(init int, progs [][]regOp) *scenario {
	name := fmt.Sprintf("init%d", init)
	for _, p := range progs {
		var s []string
		for _, o := range p {
			s = append(s, o.String())
		}
		name += " | " + strings.Join(s, ";")
	}
	return &scenario{Name: name, Setup: func() ([]func(), func(x *vrt.Exec) *finding) {
		m0 := setInitial(init)
		var hist []*opRec
		seq := 0
		bodies := make([]func(), len(progs))
		for ti, prog := range progs {
			ti, prog := ti, prog
			bodies[ti] = func() {
				for _, o := range prog {
					vrt.P(-10) // operation boundary: another thread's whole call may fall between two of ours
					r := &opRec{Thread: ti, Op: o}
					seq++
					r.Call = seq
					hist = append(hist, r)
					res := applyReal(o)
					seq++
					r.Ret = seq
					r.Result = res
				}
			}
		}
		check := func(x *vrt.Exec) *finding {
			// final look-ups by the main goroutine after all threads are done
			finals := []string{"A", "B", "CRC16"}
			for _, p := range progs {
				for _, o := range p {
					if o.Name != "" && o.Name != "A" && o.Name != "B" {
						finals = append(finals, o.Name)
					}
				}
			}
			for _, n := range finals {
				seq++
				r := &opRec{Thread: 99, Op: regOp{"get", n, 0}, Call: 1<<40 + seq}
				r.Result = applyReal(r.Op)
				seq++
				r.Ret = 1<<40 + seq
				hist = append(hist, r)
			}
			lin := linearizable(m0, hist)
			if pl := porcLinearizable(m0, hist); pl != lin {
				return &finding{Kind: "harness-checker-disagreement", Detail: fmt.Sprintf("brute force says %v, porcupine says %v: %s", lin, pl, histString(hist))}
			}
			if !lin {
				return &finding{Kind: "not-linearizable", Detail: "no sequential order of the calls consistent with real time explains the results: " + histString(hist)}
			}
			lastHist = hist
			return nil
		}
		return bodies, check
	}}
}

var lastHist []*opRec

func regOutcome(x *vrt.Exec) string {
	var parts []string
	for _, r := range lastHist {
		parts = append(parts, fmt.Sprintf("%d%s%s", r.Thread, r.Op, r.Result))
	}
	sort.Strings(parts)
	return strings.Join(parts, ",")
}

// c19Scenarios enumerates the scenario list deterministically.
func c19Scenarios(thorough bool) []*scenario {
	var progs [][]regOp
	for _, a := range regAlphabet {
		progs = append(progs, []regOp{a})
	}
	for _, a := range regAlphabet {
		for _, b := range regAlphabet {
			progs = append(progs, []regOp{a, b})
		}
	}
	var out []*scenario
	for init := 0; init < 3; init++ {
		// two threads, <= 2 ops each (unordered pairs)
		for i := range progs {
			for j := i; j < len(progs); j++ {
				out = append(out, registryScenario(init, [][]regOp{progs[i], progs[j]}))
			}
		}
		// three threads, one op each (multisets)
		for i := 0; i < len(regAlphabet); i++ {
			for j := i; j < len(regAlphabet); j++ {
				for k := j; k < len(regAlphabet); k++ {
					out = append(out, registryScenario(init, [][]regOp{{regAlphabet[i]}, {regAlphabet[j]}, {regAlphabet[k]}}))
				}
			}
		}
	}
	// warm start states: 2 threads x 1 op each, after W sequential look-ups, W around the powers of two up to 256
	for _, w := range []int{1, 2, 3, 7, 8, 15, 16, 31, 32, 63, 64, 127, 128, 255, 256} {
		for i := 0; i < len(regAlphabet); i++ {
			for j := i; j < len(regAlphabet); j++ {
				sc := registryScenario(100+w, [][]regOp{{regAlphabet[i]}, {regAlphabet[j]}})
				sc.Name = fmt.Sprintf("warm%d ", w) + sc.Name
				out = append(out, sc)
			}
		}
	}
	// many names: every pair of two different names out of 36, looked up concurrently and again afterwards
	for i := 0; i < len(manyNames); i++ {
		for j := i + 1; j < len(manyNames); j++ {
			x, y := manyNames[i], manyNames[j]
			sc := registryScenario(300, [][]regOp{{{"get", x, 0}}, {{"get", y, 0}}}) // + the final look-ups of x and y
			sc.Name = "names " + sc.Name
			out = append(out, sc)
		}
	}
	// the special families first: they stay inside the execution budget even on trees with many more scheduling points
	{
		var special, rest []*scenario
		for _, sc := range out {
			if strings.HasPrefix(sc.Name, "names ") || strings.HasPrefix(sc.Name, "warm") {
				special = append(special, sc)
			} else {
				rest = append(rest, sc)
			}
		}
		out = append(special, rest...)
	}
	if thorough {
		// three threads x exactly 2 ops over {Reg(A,1), Get(A), Rem(A), Clear}: every multiset of three programs
		aops := []regOp{regAlphabet[0], regAlphabet[3], regAlphabet[5], regAlphabet[6]}
		var ap [][]regOp
		for _, a := range aops {
			for _, b := range aops {
				ap = append(ap, []regOp{a, b})
			}
		}
		for i := range ap {
			for j := i; j < len(ap); j++ {
				for k := j; k < len(ap); k++ {
					sc := registryScenario(0, [][]regOp{ap[i], ap[j], ap[k]})
					sc.Name = "3x2 " + sc.Name
					out = append(out, sc)
				}
			}
		}
		// four threads, one op each (every multiset of 4 from the 8-op alphabet), from the empty and the {A} state
		for init := 0; init < 2; init++ {
			for i := 0; i < len(regAlphabet); i++ {
				for j := i; j < len(regAlphabet); j++ {
					for k := j; k < len(regAlphabet); k++ {
						for l := k; l < len(regAlphabet); l++ {
							sc := registryScenario(init, [][]regOp{{regAlphabet[i]}, {regAlphabet[j]}, {regAlphabet[k]}, {regAlphabet[l]}})
							sc.Name = "4x1 " + sc.Name
							out = append(out, sc)
						}
					}
				}
			}
		}
	}
	return out
}

// sequentialRegistryModel: the single-threaded behaviour of the registry against the map model over a name alphabet
// with case- and space-variants ("A", "a", "A ", ""): every operation sequence up to the given depth.  Names that a
// human would call "the same" must still be different keys, and one name must never answer for another.
func sequentialRegistryModel(res *shardResult, depth int) {
	names := []string{"A", "a", "A ", ""}
	var ops []regOp
	id := 20
	for _, n := range names {
		ops = append(ops, regOp{"reg", n, id}, regOp{"reg", n, id + 1}, regOp{"get", n, 0}, regOp{"rem", n, 0})
		id += 2
	}
	ops = append(ops, regOp{"clear", "", 0})
	seq := make([]regOp, 0, depth)
	var rec func() bool
	rec = func() bool {
		if len(seq) > 0 {
			codec.Clear()
			m := map[string]string{}
			res.Extra["sequential_registry_sequences"]++
			for i, o := range seq {
				got, want := applyReal(o), applyModel(m, o)
				if got != want {
					res.Violations = append(res.Violations, seqRegViolation(seq[:i+1], fmt.Sprintf("%s returned %q, the map model says %q", o, got, want)))
					return false
				}
			}
			for _, n := range names {
				o := regOp{"get", n, 0}
				if got, want := applyReal(o), applyModel(m, o); got != want {
					res.Violations = append(res.Violations, seqRegViolation(seq, fmt.Sprintf("afterwards %s returned %q, the map model says %q", o, got, want)))
					return false
				}
			}
		}
		if len(seq) == depth {
			return true
		}
		for _, o := range ops {
			seq = append(seq, o)
			ok := rec()
			seq = seq[:len(seq)-1]
			if !ok {
				return false
			}
		}
		return true
	}
	rec()
	codec.Clear()
}

func seqRegViolation(seq []regOp, detail string) *ev.Violation {
	var parts []string
	for _, o := range seq {
		parts = append(parts, fmt.Sprintf("%s[%q]", o.Kind, o.Name))
	}
	return &ev.Violation{Property: "C19", Kind: "sequential-model-mismatch", Subject: "registry " + firstWords(detail, 4),
		Detail: "single-threaded sequence " + strings.Join(parts, " ") + ": " + detail,
		Replay: map[string]any{"op": "registry-sequence", "sequence": parts}}
}

var manyNames = func() []string {
	var out []string
	for c := 'A'; c <= 'Z'; c++ {
		out = append(out, string(c))
	}
	for c := '0'; c <= '9'; c++ {
		out = append(out, string(c))
	}
	// two-character names as well (names of different lengths hash differently from single characters)
	for _, a := range "ABCDEFG" {
		for _, b := range "0123" {
			out = append(out, string(a)+string(b))
		}
	}
	return out
}()
