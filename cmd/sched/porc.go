//go:build vinstr

package main

import (
	"sort"
	"strings"

	"github.com/anishathalye/porcupine"
)

// A second, independent linearizability decision (porcupine) cross-checks the brute-force checker:
// the two must agree on every explored execution, otherwise the run is a harness error.

type porcState string // canonical "k=v;k=v" rendering of the map

func encState(m map[string]string) porcState {
	ks := make([]string, 0, len(m))
	for k := range m {
		ks = append(ks, k)
	}
	sort.Strings(ks)
	var sb strings.Builder
	for _, k := range ks {
		sb.WriteString(k + "=" + m[k] + ";")
	}
	return porcState(sb.String())
}

func decState(s porcState) map[string]string {
	m := map[string]string{}
	for _, kv := range strings.Split(string(s), ";") {
		if i := strings.Index(kv, "="); i > 0 {
			m[kv[:i]] = kv[i+1:]
		}
	}
	return m
}

func porcModel(init map[string]string) porcupine.Model {
	return porcupine.Model{
		Init: func() interface{} { return encState(init) },
		Step: func(state, input, output interface{}) (bool, interface{}) {
			m := decState(state.(porcState))
			res := applyModel(m, input.(regOp))
			return res == output.(string), encState(m)
		},
		Equal: func(a, b interface{}) bool { return a.(porcState) == b.(porcState) },
	}
}

func porcLinearizable(init map[string]string, hist []*opRec) bool {
	ops := make([]porcupine.Operation, len(hist))
	for i, r := range hist {
		ops[i] = porcupine.Operation{ClientId: r.Thread % 100, Input: r.Op, Call: int64(r.Call), Output: r.Result, Return: int64(r.Ret)}
	}
	return porcupine.CheckOperations(porcModel(init), ops)
}
