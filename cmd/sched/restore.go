//go:build vinstr

package main

import (
	"reflect"
	"strings"
	"unsafe"
)

// Package-level state is part of the state space: every execution must start from the same
// values, otherwise the same schedule does not give the same observations.  snapshotGlobals
// deep-copies every package-level variable once; restoreGlobals puts the values back in place
// (maps are cleared and refilled, pointees restored field by field, synchronisation objects skipped).

type savedVar struct {
	ptr  reflect.Value // pointer to the variable
	copy reflect.Value // deep copy of its value
}

var savedGlobals []savedVar

func snapshotGlobals() {
	savedGlobals = nil
	for _, g := range allGlobals() {
		for _, p := range g {
			v := reflect.ValueOf(p)
			savedGlobals = append(savedGlobals, savedVar{ptr: v, copy: deepCopy(v.Elem(), 0)})
		}
	}
}

func restoreGlobals() {
	for _, s := range savedGlobals {
		restoreInto(s.ptr.Elem(), s.copy, 0)
	}
}

func isSyncType(t reflect.Type) bool {
	pp := t.PkgPath()
	if strings.HasSuffix(pp, "zzverif/vsync") && (t.Name() == "Once" || t.Name() == "Pool") {
		return false // a Once's "done" flag and a Pool's free list are data: they are restored with the rest of the package-level state
	}
	return pp == "sync" || pp == "sync/atomic" || strings.HasSuffix(pp, "zzverif/vsync") || strings.HasSuffix(pp, "zzverif/vatomic")
}

func settable(v reflect.Value) reflect.Value {
	if v.CanSet() {
		return v
	}
	if v.CanAddr() {
		return reflect.NewAt(v.Type(), unsafe.Pointer(v.UnsafeAddr())).Elem()
	}
	return v
}

func readable(v reflect.Value) reflect.Value {
	if v.CanInterface() || !v.CanAddr() {
		return v
	}
	return reflect.NewAt(v.Type(), unsafe.Pointer(v.UnsafeAddr())).Elem()
}

func deepCopy(v reflect.Value, depth int) reflect.Value {
	v = readable(v)
	out := reflect.New(v.Type()).Elem()
	if depth > 10 {
		out.Set(v)
		return out
	}
	switch v.Kind() {
	case reflect.Map:
		if v.IsNil() {
			return out
		}
		m := reflect.MakeMapWithSize(v.Type(), v.Len())
		it := v.MapRange()
		for it.Next() {
			m.SetMapIndex(it.Key(), deepCopy(it.Value(), depth+1))
		}
		out.Set(m)
	case reflect.Slice:
		if v.IsNil() {
			return out
		}
		s := reflect.MakeSlice(v.Type(), v.Len(), v.Len())
		for i := 0; i < v.Len(); i++ {
			s.Index(i).Set(deepCopy(v.Index(i), depth+1))
		}
		out.Set(s)
	case reflect.Array:
		for i := 0; i < v.Len(); i++ {
			out.Index(i).Set(deepCopy(v.Index(i), depth+1))
		}
	case reflect.Struct:
		if isSyncType(v.Type()) {
			return out
		}
		for i := 0; i < v.NumField(); i++ {
			settable(out.Field(i)).Set(deepCopy(v.Field(i), depth+1))
		}
	case reflect.Ptr:
		if v.IsNil() {
			return out
		}
		// keep the pointer's identity; remember the pointee's contents
		out.Set(v)
	default:
		out.Set(v)
	}
	return out
}

// pointees remembers deep copies of what package-level pointers pointed to.
func restoreInto(dst, saved reflect.Value, depth int) {
	dst = settable(dst)
	saved = readable(saved)
	if depth > 10 {
		return
	}
	switch dst.Kind() {
	case reflect.Map:
		if saved.IsNil() {
			if !dst.IsNil() {
				dst.Set(saved)
			}
			return
		}
		if dst.IsNil() {
			dst.Set(deepCopy(saved, depth+1))
			return
		}
		// same map object: clear and refill so that references held elsewhere stay valid
		same := dst.Len() == saved.Len()
		if same {
			it := saved.MapRange()
			for it.Next() {
				if !dst.MapIndex(it.Key()).IsValid() {
					same = false
					break
				}
			}
		}
		if same && dst.Type().Elem().Kind() == reflect.Func {
			return // factory tables: same key set, function values are immutable
		}
		for _, k := range dst.MapKeys() {
			dst.SetMapIndex(k, reflect.Value{})
		}
		it := saved.MapRange()
		for it.Next() {
			dst.SetMapIndex(it.Key(), deepCopy(it.Value(), depth+1))
		}
	case reflect.Slice:
		dst.Set(deepCopy(saved, depth+1))
	case reflect.Array:
		for i := 0; i < dst.Len(); i++ {
			restoreInto(dst.Index(i), saved.Index(i), depth+1)
		}
	case reflect.Struct:
		if isSyncType(dst.Type()) {
			return
		}
		for i := 0; i < dst.NumField(); i++ {
			restoreInto(dst.Field(i), saved.Field(i), depth+1)
		}
	case reflect.Ptr:
		dst.Set(saved)
	default:
		dst.Set(saved)
	}
}
