//go:build vinstr

package main

import (
	"fmt"

	"github.com/xinchentechnote/fin-proto-go/zzverif/vrt"
	"github.com/xinchentechnote/fin-proto-go/zzverif/vsync"
)

// scenario: fresh bodies per execution + a checker for the finished execution.
type scenario struct {
	Name  string
	Setup func() (bodies []func(), check func(x *vrt.Exec) *finding)
}

type finding struct {
	Kind   string
	Detail string
}

type exploreStats struct {
	Execs      int64
	Steps      int64
	MaxPoints  int
	Capped     bool
	Bound      int // -1 = unbounded
	Outcomes   map[string]struct{}
	Schedules  map[string]struct{} // distinct choice sequences (== Execs, kept as a determinism cross-check)
	Finding    *finding
	FindingSch []int
	MaxShared  int
	Diverged   int64 // executions whose replayed prefix saw a different enabled set: nondeterminism inside the library (e.g. map iteration order)
}

const horizon = 20000

// runOnce executes the scenario under the given choice prefix (default choice 0 afterwards).
// want, if non-nil, are the enabled sets recorded by the parent run for the prefix: any difference is a hard error.
func runOnce(sc *scenario, prefix []int, want []vrt.Point) (*vrt.Exec, *finding) {
	vsync.ResetAll()
	bodies, check := sc.Setup()
	x := vrt.Run(bodies, func(step int, enabled []int, runEn bool) (int, error) {
		if step < len(prefix) {
			if want != nil && !sameInts(want[step].Enabled, enabled) {
				return 0, fmt.Errorf("replay diverged at step %d: enabled %v, recorded %v", step, enabled, want[step].Enabled)
			}
			if prefix[step] >= len(enabled) {
				return 0, fmt.Errorf("replay diverged at step %d: choice %d of %v", step, prefix[step], enabled)
			}
			return prefix[step], nil
		}
		return 0, nil
	}, horizon)
	if x.Diverged != "" {
		return x, &finding{Kind: "harness-nondeterminism", Detail: x.Diverged}
	}
	if x.Horizon {
		return x, &finding{Kind: "livelock-or-horizon", Detail: fmt.Sprintf("execution did not finish within %d scheduling steps", horizon)}
	}
	if x.Deadlock {
		return x, &finding{Kind: "deadlock", Detail: "no enabled thread although not all threads finished"}
	}
	for id, p := range x.Panics {
		return x, &finding{Kind: "panic", Detail: fmt.Sprintf("thread %d panicked: %v", id, p)}
	}
	if len(x.Races) > 0 {
		return x, &finding{Kind: "hb-race", Detail: x.Races[0].Detail}
	}
	return x, check(x)
}

func sameInts(a, b []int) bool {
	if len(a) != len(b) {
		return false
	}
	for i := range a {
		if a[i] != b[i] {
			return false
		}
	}
	return true
}

func choices(x *vrt.Exec) []int {
	out := make([]int, len(x.Points))
	for i, p := range x.Points {
		out[i] = p.Chosen
	}
	return out
}

// explore: iterative preemption-bounded DFS (the brief's idiom).  bound < 0 = unbounded.
func explore(sc *scenario, bound int, maxExecs int64, outcome func(x *vrt.Exec) string) *exploreStats {
	st := &exploreStats{Bound: bound, Outcomes: map[string]struct{}{}}
	var rec func(prefix []int, want []vrt.Point) bool
	rec = func(prefix []int, want []vrt.Point) bool {
		if st.Execs >= maxExecs {
			st.Capped = true
			return false
		}
		x, f := runOnce(sc, prefix, want)
		st.Execs++
		st.Steps += int64(x.Steps)
		if len(x.Points) > st.MaxPoints {
			st.MaxPoints = len(x.Points)
		}
		if x.Shared > st.MaxShared {
			st.MaxShared = x.Shared
		}
		if f != nil && f.Kind == "harness-nondeterminism" {
			// the code under test behaved differently under the same schedule prefix (not possible on the unchanged
			// tree, which has no such source): this subtree cannot be explored systematically; count it and go on
			st.Diverged++
			return true
		}
		if f != nil {
			st.Finding, st.FindingSch = f, choices(x)
			return false
		}
		if outcome != nil {
			st.Outcomes[outcome(x)] = struct{}{}
		}
		ch := choices(x)
		cost := 0
		for i := 0; i < len(x.Points); i++ {
			p := x.Points[i]
			if i >= len(prefix) {
				for alt := 1; alt < len(p.Enabled); alt++ {
					c := cost
					if p.RunningEnabled {
						c++
					}
					if bound >= 0 && c > bound {
						continue
					}
					np := append(append([]int{}, ch[:i]...), alt)
					if !rec(np, x.Points[:i+1]) {
						return false
					}
				}
			}
			if p.RunningEnabled && p.Chosen != 0 {
				cost++
			}
		}
		return true
	}
	rec(nil, nil)
	return st
}
