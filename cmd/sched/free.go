//go:build !vinstr

// Free-running adjunct of the scheduler checks: the same scenario bodies built
// WITHOUT the overlay and with -race, on real goroutines.  Never the decider:
// a race report is a violation, silence adds nothing to the claim.
package main

import (
	"bytes"
	"fmt"
	"os"
	"sync"

	"github.com/xinchentechnote/fin-proto-go/codec"

	"verif/engine/bind"
	"verif/engine/valenum"
)

type tsvc struct {
	name string
	id   int
}

func (s *tsvc) Algorithm() string { return s.name }

func main() {
	if len(os.Args) < 3 {
		os.Exit(2)
	}
	rounds := 200
	if os.Args[2] == "thorough" {
		rounds = 2000
	}
	switch os.Args[1] {
	case "C19":
		for r := 0; r < rounds; r++ {
			var wg sync.WaitGroup
			for g := 0; g < 16; g++ {
				wg.Add(1)
				go func(g int) {
					defer wg.Done()
					for i := 0; i < 20; i++ {
						switch (g + i) % 5 {
						case 0:
							codec.Registry(&tsvc{"A", g})
						case 1:
							codec.Get("A")
						case 2:
							codec.Remove("A")
						case 3:
							codec.Registry(&tsvc{"B", g})
						case 4:
							if i == 7 {
								codec.Clear()
							} else {
								codec.Get("B")
							}
						}
					}
				}(g)
			}
			wg.Wait()
		}
	case "C20":
		if rounds > 400 {
			rounds = 400
		}
		for r := 0; r < rounds/40; r++ {
			var wg sync.WaitGroup
			for g := 0; g < 16; g++ {
				wg.Add(1)
				go func(g int) {
					defer wg.Done()
					for i, t := range bind.Types {
						if (i+g)%4 != 0 {
							continue
						}
						v := valenum.Distinct(t)
						msg := bind.MustReal(v)
						buf := &bytes.Buffer{}
						_ = bind.Encode(msg, buf)
						_ = bind.Decode(bind.New(t), buf)
					}
				}(g)
			}
			wg.Wait()
		}
	}
	fmt.Println("free-running pass finished")
}
