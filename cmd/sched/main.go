//go:build vinstr

// Command sched is the controlled-scheduler explorer (C19, C20).  It is built
// with the instrumentation overlay (-tags vinstr -overlay …) so that the
// library's codec and message packages it links are the instrumented copies.
package main

import (
	"bufio"
	"encoding/json"
	"fmt"
	"os"
	"os/exec"
	"runtime"
	"sort"
	"strconv"
	"sync"
	"syscall"

	"verif/engine/ev"
)

type shardResult struct {
	Scenarios    int64            `json:"scenarios"`
	Execs        int64            `json:"execs"`
	Steps        int64            `json:"steps"`
	Unbounded    int64            `json:"unbounded_complete"`
	Bounded      int64            `json:"bounded_complete"`
	Capped       int64            `json:"capped"`
	MaxPoints    int              `json:"max_points"`
	OutcomesMin  int              `json:"outcomes_min"`
	OutcomesMax  int              `json:"outcomes_max"`
	OutcomesSum  int64            `json:"outcomes_sum"`
	MultiOutcome int64            `json:"scenarios_with_more_than_one_outcome"`
	Violations   []*ev.Violation  `json:"violations"`
	Samples      []any            `json:"samples"`
	Extra        map[string]int64 `json:"extra"`
	Globals      map[string]int   `json:"globals,omitempty"`
}

func main() {
	if len(os.Args) < 3 {
		fmt.Fprintln(os.Stderr, "usage: sched C19|C20 quick|thorough | sched shard <ID> <tier> <i> <n> | sched replay <file>")
		os.Exit(2)
	}
	switch os.Args[1] {
	case "shard":
		i, _ := strconv.Atoi(os.Args[4])
		n, _ := strconv.Atoi(os.Args[5])
		runtime.GOMAXPROCS(2)
		res := runShard(os.Args[2], os.Args[3] == "thorough", i, n)
		json.NewEncoder(os.Stdout).Encode(res)
		return
	case "replay":
		os.Exit(replaySched(os.Args[2]))
	}
	id, tier := os.Args[1], os.Args[2]
	r := ev.NewRun(id, tier)
	n := runtime.NumCPU()
	exe, _ := os.Executable()
	var mu sync.Mutex
	total := &shardResult{OutcomesMin: 1 << 30, Extra: map[string]int64{}}
	var wg sync.WaitGroup
	for i := 0; i < n; i++ {
		wg.Add(1)
		go func(i int) {
			defer wg.Done()
			runtime.LockOSThread() // Pdeathsig is tied to the creating thread
			cmd := exec.Command(exe, "shard", id, tier, strconv.Itoa(i), strconv.Itoa(n))
			cmd.Stderr = os.Stderr
			cmd.SysProcAttr = &syscall.SysProcAttr{Pdeathsig: syscall.SIGKILL}
			out, err := cmd.StdoutPipe()
			if err != nil {
				panic(err)
			}
			if err := cmd.Start(); err != nil {
				fmt.Fprintln(os.Stderr, "shard start:", err)
				os.Exit(2)
			}
			var res shardResult
			rd := bufio.NewReaderSize(out, 1<<20)
			derr := json.NewDecoder(rd).Decode(&res)
			werr := cmd.Wait()
			if derr != nil || werr != nil {
				fmt.Fprintf(os.Stderr, "shard %d failed: %v %v\n", i, derr, werr)
				os.Exit(2)
			}
			mu.Lock()
			defer mu.Unlock()
			total.Scenarios += res.Scenarios
			total.Execs += res.Execs
			total.Steps += res.Steps
			total.Unbounded += res.Unbounded
			total.Bounded += res.Bounded
			total.Capped += res.Capped
			total.OutcomesSum += res.OutcomesSum
			total.MultiOutcome += res.MultiOutcome
			if res.MaxPoints > total.MaxPoints {
				total.MaxPoints = res.MaxPoints
			}
			if res.Scenarios > 0 && res.OutcomesMin < total.OutcomesMin {
				total.OutcomesMin = res.OutcomesMin
			}
			if res.OutcomesMax > total.OutcomesMax {
				total.OutcomesMax = res.OutcomesMax
			}
			for k, v := range res.Extra {
				total.Extra[k] += v
			}
			if res.Globals != nil {
				total.Globals = res.Globals
			}
			for _, v := range res.Violations {
				r.Violate(v)
			}
			for _, s := range res.Samples {
				r.Sample(s)
			}
		}(i)
	}
	wg.Wait()
	r.AddEvals(total.Execs)
	r.SetDistinct(total.Execs) // every execution is a distinct schedule by construction of the DFS
	r.Transition(total.Steps)
	r.Trace(total.Execs)
	r.Set("scenarios", total.Scenarios)
	r.Set("schedules_executed", total.Execs)
	r.Set("scheduling_steps", total.Steps)
	r.Set("scenarios_explored_without_preemption_bound", total.Unbounded)
	r.Set("scenarios_explored_to_a_preemption_bound", total.Bounded)
	r.Set("scenarios_capped", total.Capped)
	r.Set("max_scheduling_points_in_one_execution", total.MaxPoints)
	r.Set("distinct_outcomes", map[string]any{"min_per_scenario": total.OutcomesMin, "max_per_scenario": total.OutcomesMax, "total": total.OutcomesSum, "scenarios_with_more_than_one_outcome": total.MultiOutcome})
	keys := make([]string, 0, len(total.Extra))
	for k := range total.Extra {
		keys = append(keys, k)
	}
	sort.Strings(keys)
	for _, k := range keys {
		r.Set(k, total.Extra[k])
	}
	if total.Globals != nil {
		r.Set("package_level_variables_watched", total.Globals)
	}
	if total.Capped > 0 {
		r.Cap(fmt.Sprintf("%d scenarios hit the execution cap at their final preemption bound", total.Capped))
	}
	describe(r, id, tier == "thorough")
	// free-running race-detector adjunct (never the decider; a report is a violation, silence adds nothing)
	if fb := os.Getenv("VERIF_FREE_BIN"); fb != "" {
		out, err := exec.Command(fb, id, tier).CombinedOutput()
		r.Set("race_detector_adjunct", map[string]any{"ran": true, "clean": err == nil})
		if err != nil {
			r.Violate(&ev.Violation{Kind: "race-detector-report", Subject: "free-running -race pass", Detail: tail(string(out), 3000), Replay: map[string]any{"op": "free", "cmd": fb + " " + id + " " + tier}})
		}
	}
	os.Exit(r.Finish())
}

func tail(s string, n int) string {
	if len(s) > n {
		return s[:n]
	}
	return s
}

func describe(r *ev.Run, id string, thorough bool) {
	switch id {
	case "C19":
		r.Rule = "real codec registry (instrumented through a build overlay: scheduling points at every lock operation, before every statement that touches the registry's fields and at every operation boundary; R/W events on the registry's fields) under a controlled scheduler; scenarios: every unordered pair of programs of <=2 ops over {Reg(A,1),Reg(A,2),Reg(B,3),Get(A),Get(B),Rem(A),Clear,Reg(non-service)} on 2 threads and every multiset of 3 single ops on 3 threads" + map[bool]string{true: ", plus every multiset of three 2-op programs over {Reg(A,1),Get(A),Rem(A),Clear} on 3 threads (816 scenarios, preemption bound 3) and every multiset of 4 single ops on 4 threads from 2 initial states (660 scenarios, preemption bound 3)", false: ""}[thorough] + ", from 3 initial states (empty, {A}, the four built-ins), plus, in a registry holding 64 names of one and two characters, every pair of different names looked up by two threads and again afterwards (2,016 scenarios); plus every pair of single ops on 2 threads from 15 WARM start states ({A} after W sequential look-ups, W in {1,2,3,7,8,15,16,...,255,256}); ALL interleavings (no preemption bound; if a scenario exceeds the execution cap it is re-explored to preemption bound 2 and reported); also, single-threaded, every operation sequence of length <= 5 (6) over the names {A, a, 'A ', ''} against the map model; oracle per execution: call/return history + final look-ups linearizable w.r.t. a plain map with real-time order (brute force), no happens-before race (vector clocks over lock edges), no deadlock; evaluations = schedules executed, all distinct"
		r.Assume("scheduling only at visible operations is a sound partial-order reduction here (all shared state is package-level; cross-checked against statement granularity: same 16,464 outcomes); memory effects below happens-before are not modelled", "linearizability decided by brute force AND by porcupine v1.3.0, which must agree on every execution", "the RWMutex shim admits readers while a writer waits (superset of Go's behaviour)")
	case "C20":
		r.Rule = "(a) sequential global-state invariant: after a warm-up pass (one-time initialisation allowed), the deep hash of every package-level variable of codec and the 5 message packages is identical before/after every Encode and Decode over V1 of all 170 types; (b) 2 threads each doing Encode(m_i,b_i); Decode(b_i->r_i) on their own objects under the controlled scheduler on the instrumented build (statement granularity): the 170 self-pairs and a ring of 170 cross-type pairs" + map[bool]string{true: " and one frame pair per pair of protocols and frame pairs; preemption bound 2 for types with <=120 points, bound 1 otherwise", false: ", preemption bound 1"}[thorough] + "; per type one thread first running a decode that fails midway; plus 2 and 3 threads computing each checksum service at the same time from the pristine package state; oracle: each thread's bytes and decoded value equal its sequential result, no happens-before race on any package-level variable, no deadlock; evaluations = schedules executed"
		r.Assume("heap objects reachable only through pointers are covered by result comparison and the -race adjunct, not by the HB monitor")
	}
}
