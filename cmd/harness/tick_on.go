//go:build vinstr

package main

import "github.com/xinchentechnote/fin-proto-go/zzverif/vrt"

// With the overlay instrumentation every loop iteration in the codec and message packages counts one tick.
func tickCount() uint64 { return vrt.Ticks() }
func tickActive() bool  { return true }
