package main

import (
	"fmt"

	"verif/engine/ev"
	rm "verif/engine/refmodel"
	"verif/engine/valenum"
)

// Sigma is the substitution alphabet of the wire explorer (DESIGN 3.3).
var Sigma = []byte{0x00, 0x01, 0x20, 0x30, 0x7F, 0x80, 0xFF}

type wireOpts struct {
	Dev         int  // max substituted bytes (0, 1 or 2)
	DevBaseOnly bool // apply substitutions only to the two base seeds
	Dev2Base    bool // 2-byte substitutions on base seeds (in addition to Dev)
	MaxDevLen   int  // seeds longer than this get no substitutions (default 600)
	Canonical   bool // seeds from canonical values only
	Big         bool
	IndelMaxLen int  // non-base seeds longer than this get no insertions/deletions (0 = MaxDevLen)
	Indel       bool // every one-byte deletion and every one-byte insertion (from Sigma) on the seeds that get substitutions
}

// seeds enumerates the reference wires of V1(t) (deduplicated), with the value they came from.
func seeds(t *rm.Type, canonical, big bool, fn func(w []byte, c *valenum.Case) bool) {
	seen := map[uint64]struct{}{}
	valenum.Enum(t, valenum.Opts{K: 1, Canonical: canonical, Big: big}, func(c *valenum.Case) bool {
		w, err := rm.EncodeBytes(c.V)
		if err != nil {
			return true
		}
		h := ev.H(string(w))
		if _, ok := seen[h]; ok {
			return true
		}
		seen[h] = struct{}{}
		return fn(w, c)
	})
}

// wireSpace enumerates seeds and their bounded substitutions; w is reused between calls.
func wireSpace(t *rm.Type, o wireOpts, fn func(w []byte, desc string) bool) {
	if o.MaxDevLen == 0 {
		o.MaxDevLen = 600
	}
	seen := map[uint64]struct{}{}
	emit := func(w []byte, desc string) bool {
		h := ev.H(string(w))
		if _, ok := seen[h]; ok {
			return true
		}
		seen[h] = struct{}{}
		return fn(w, desc)
	}
	seeds(t, o.Canonical, o.Big, func(w []byte, c *valenum.Case) bool {
		desc := "seed " + c.Base + " {" + c.Desc + "}"
		if !emit(w, desc) {
			return false
		}
		isBase := c.NDev == 0
		if o.Dev >= 1 && len(w) <= o.MaxDevLen && (isBase || !o.DevBaseOnly) {
			m := append([]byte{}, w...)
			for i := range m {
				old := m[i]
				for _, s := range Sigma {
					if s == old {
						continue
					}
					m[i] = s
					if !emit(m, fmt.Sprintf("%s byte %d:=%02x", desc, i, s)) {
						return false
					}
				}
				m[i] = old
			}
		}
		if o.Indel && len(w) <= o.MaxDevLen && (isBase || (!o.DevBaseOnly && (o.IndelMaxLen == 0 || len(w) <= o.IndelMaxLen))) {
			// edits that shift everything after them: a field boundary moves, a prefix is read from data bytes
			m := make([]byte, 0, len(w)+1)
			for i := range w {
				m = append(append(m[:0], w[:i]...), w[i+1:]...)
				if !emit(m, fmt.Sprintf("%s byte %d deleted", desc, i)) {
					return false
				}
			}
			for i := 0; i <= len(w); i++ {
				for _, s := range Sigma {
					m = append(append(append(m[:0], w[:i]...), s), w[i:]...)
					if !emit(m, fmt.Sprintf("%s byte %02x inserted before %d", desc, s, i)) {
						return false
					}
				}
			}
		}
		if o.Dev2Base && isBase && len(w) <= o.MaxDevLen {
			m := append([]byte{}, w...)
			for i := range m {
				oi := m[i]
				for _, s := range Sigma {
					if s == oi {
						continue
					}
					m[i] = s
					for j := i + 1; j < len(m); j++ {
						oj := m[j]
						for _, s2 := range Sigma {
							if s2 == oj {
								continue
							}
							m[j] = s2
							// two-byte substitutions are pairwise distinct by construction: not entered into the de-duplication set
							if !fn(m, fmt.Sprintf("%s bytes %d:=%02x,%d:=%02x", desc, i, s, j, s2)) {
								return false
							}
						}
						m[j] = oj
					}
				}
				m[i] = oi
			}
		}
		return true
	})
}
