package main

import (
	"bytes"
	"fmt"
	"strings"
	"sync/atomic"

	"verif/engine/bind"
	"verif/engine/ev"
	rm "verif/engine/refmodel"
	"verif/engine/valenum"
)

func init() {
	checks["C01"] = runC01
	checks["C02"] = runC02
	caseChecks["C01"] = c01Case
	caseChecks["C02"] = c02Case
	wireChecks["C02"] = c02Wire
}

// caseChecks: per-property single-value checkers (used by the explorers and by replay).
var caseChecks = map[string]func(t *rm.Type, v *rm.Value) *ev.Violation{}

// wireChecks: per-property single-wire checkers.
var wireChecks = map[string]func(t *rm.Type, w []byte) *ev.Violation{}

func vio(kind string, t *rm.Type, where, detail string, v *rm.Value) *ev.Violation {
	subj := t.QName()
	if where != "" {
		subj += " " + where
	}
	rp := map[string]any{"op": "value", "type": t.QName()}
	if v != nil {
		rp["value"] = rm.ToJSON(v)
	}
	return &ev.Violation{Kind: kind, Subject: subj, Detail: detail, Replay: rp}
}

func vioWire(kind string, t *rm.Type, where, detail string, w []byte) *ev.Violation {
	subj := t.QName()
	if where != "" {
		subj += " " + where
	}
	return &ev.Violation{Kind: kind, Subject: subj, Detail: detail, Replay: map[string]any{"op": "wire", "type": t.QName(), "wire": fmt.Sprintf("%x", w)}}
}

func pathOf(diff string) string {
	if i := strings.Index(diff, ":"); i >= 0 {
		d := diff[:i]
		// drop list indices so that one defect is one subject
		var sb strings.Builder
		skip := false
		for _, c := range d {
			if c == '[' {
				skip = true
			}
			if !skip {
				sb.WriteRune(c)
			}
			if c == ']' {
				skip = false
				sb.WriteString("[]")
			}
		}
		return sb.String()
	}
	return diff
}

// expectedAfterRoundTrip: v with self-computed fields replaced by their correct
// values, derived from the library's own output bytes (not from the pinned layout).
func expectedComputed(t *rm.Type, v *rm.Value, out []byte) (*rm.Value, error) {
	if !t.HasComputed() {
		return v, nil
	}
	e := v.Clone()
	for i := range t.Fields {
		f := &t.Fields[i]
		switch f.Kind {
		case "length":
			n := 0
			body := v.Fields[t.DynField()]
			if !body.Nil {
				bb, _, err, pan := realEncode(body)
				if err != nil || pan != nil {
					return nil, fmt.Errorf("body alone does not encode: %v %v", err, pan)
				}
				n = len(bb)
			}
			e.Fields[i] = rm.Scalar(uint64(n))
		case "checksum":
			w := rm.ScalarWidth(f.Scalar)
			if len(out) < w {
				return nil, fmt.Errorf("frame shorter than its trailer")
			}
			e.Fields[i] = rm.Scalar(rm.Checksum(f.Alg, out[:len(out)-w]))
		}
	}
	return e, nil
}

func c01Case(t *rm.Type, v *rm.Value) *ev.Violation {
	out, _, err, pan := realEncode(v)
	if pan != nil {
		return vio("encode-panic", t, "", fmt.Sprint(pan), v)
	}
	if err != nil {
		return vio("encode-error-on-canonical", t, "", err.Error(), v)
	}
	dv, consumed, derr, dpan := realDecode(t, out)
	if dpan != nil {
		return vio("decode-panic", t, "", fmt.Sprint(dpan), v)
	}
	if derr != nil {
		return vio("decode-error-on-own-output", t, "", derr.Error()+" wire="+hx(out), v)
	}
	if consumed != len(out) {
		return vio("decode-left-bytes", t, "", fmt.Sprintf("consumed %d of %d", consumed, len(out)), v)
	}
	exp, e2 := expectedComputed(t, v, out)
	if e2 != nil {
		return vio("computed-field", t, "", e2.Error(), v)
	}
	if d := rm.Diff(exp, dv, ""); d != "" {
		return vio("roundtrip-mismatch", t, pathOf(d), "expected vs decoded at "+d+" wire="+hx(out), v)
	}
	return nil
}

func runC01(r *ev.Run, thorough bool) {
	r.Rule = "per type: values within <=k deviating leaves of bases Z (all-zero) and D (all-distinct), canonical alphabets (DESIGN 3.2); real Encode into empty buffer, real Decode into fresh receiver, bitwise/bytewise equality, computed fields vs correct values; then, AFTER A LONG SESSION (5,000 / 70,000 round trips of ever new values per type), 8 never-seen values per type; distinct = distinct (type,value) by hash; non-trivial = at least one non-zero leaf"
	r.Assume("bind (reflection) converts values faithfully; canonical domain as stated in C01")
	parTypes(r, bind.Types, func(t *rm.Type, l *ev.Local) {
		k := 1
		if thorough {
			k = 2
			if valenum.NumLeaves(t) <= 10 {
				k = 3
			}
		}
		valenum.Enum(t, valenum.Opts{K: k, Canonical: true, Big: true, Combos: true}, func(c *valenum.Case) bool {
			key := ev.H(t.QName() + c.V.String())
			l.Eval(key, c.Base == "D" || c.NDev > 0)
			l.States[key] = struct{}{}
			l.Transitions += 2
			l.Traces++
			if viol := c01Case(t, c.V); viol != nil {
				viol.Detail = "base " + c.Base + " dev {" + c.Desc + "}: " + viol.Detail
				r.Violate(viol)
				return !r.TooMany()
			}
			if c.NDev == 1 && c.Base == "D" && len(c.Desc) < 60 {
				r.Sample(t.QName() + " D " + c.Desc)
			}
			return true
		})
	})
	// complete size sweeps: every prefixed-text length and every list length up to the sweep bound, no windows
	st, sl := sweepBounds(thorough)
	var nsweep int64
	parTypes(r, bind.Types, func(t *rm.Type, l *ev.Local) {
		n := int64(0)
		valenum.Enum(t, valenum.Opts{K: 1, Canonical: true, SweepText: st, SweepList: sl}, func(c *valenum.Case) bool {
			if c.NDev == 0 {
				return true
			}
			n++
			l.Eval(ev.H(t.QName()+"sweep"+c.Base+c.Desc), true)
			l.Transitions += 2
			l.Traces++
			if viol := c01Case(t, c.V); viol != nil {
				viol.Detail = "size sweep, base " + c.Base + " dev {" + c.Desc + "}: " + viol.Detail
				r.Violate(viol)
				return !r.TooMany()
			}
			return true
		})
		atomic.AddInt64(&nsweep, n)
	})
	r.Set("size_sweep", map[string]any{"every_prefixed_text_length_0_to": st, "every_list_length_0_to": sl, "values": nsweep})
	// after a long session (state the library may accumulate across calls): never-seen values must still round-trip
	wn := warmN(thorough)
	warmSession(r, wn)
	parTypes(r, bind.Types, func(t *rm.Type, l *ev.Local) {
		for s := wn + 1; s <= wn+8; s++ {
			v := valenum.Salted(t, s)
			if _, err := rm.EncodeBytes(v); err != nil {
				continue
			}
			l.Eval(ev.H(fmt.Sprint(t.QName(), "warm", s)), true)
			l.Transitions += 2
			l.Traces++
			if viol := c01Case(t, v); viol != nil {
				viol.Detail = fmt.Sprintf("after a session of %d round trips per type, new value (salt %d): ", wn, s) + viol.Detail
				viol.Replay["warm_session"] = wn
				r.Violate(viol)
				break
			}
		}
	})
	r.Set("bound", map[string]any{"k_deviations": map[bool]string{false: "1", true: "2 (3 for types with <=10 leaves)"}[thorough], "types": len(bind.Types)})
}

// ---- C02 ----

func c02Case(t *rm.Type, v *rm.Value) *ev.Violation {
	ref, _, _, rerr := rm.EncodeRef(v)
	out, _, err, pan := realEncode(v)
	if pan != nil {
		return vio("encode-panic", t, "", fmt.Sprint(pan), v)
	}
	if rerr != nil {
		return nil // outside the schema's domain (overflow / unknown key): C18 / C12
	}
	if err != nil {
		return vio("encode-error", t, "", err.Error(), v)
	}
	if !bytes.Equal(ref, out) {
		i := 0
		for i < len(ref) && i < len(out) && ref[i] == out[i] {
			i++
		}
		_, segs, _, _ := rm.EncodeRef(v)
		where, role := "", ""
		for _, s := range segs {
			if i >= s.Off && i < s.Off+s.Len {
				where, role = s.Path, s.Role
			}
		}
		return vio("layout-mismatch", t, pathOf(where+":")+" "+role, fmt.Sprintf("first difference at byte %d (%s %s): schema %s library %s", i, where, role, hx(ref[min(i, len(ref)):]), hx(out[min(i, len(out)):])), v)
	}
	return nil
}

// c02Wire: decode direction — library and reference interpreter agree on accept/reject, value and consumed count.
func c02Wire(t *rm.Type, w []byte) *ev.Violation {
	rv, rcons, rerr, hostile := rm.DecodeRefX(t, w)
	if hostile {
		return nil // explored by C09/C10 in resource-limited workers
	}
	dv, cons, derr, pan := realDecode(t, w)
	if pan != nil {
		return vioWire("decode-panic", t, "", fmt.Sprint(pan), w)
	}
	if (rerr == nil) != (derr == nil) {
		return vioWire("accept-mismatch", t, "", fmt.Sprintf("schema interpreter err=%v, library err=%v on %s", rerr, derr, hx(w)), w)
	}
	if rerr != nil {
		return nil
	}
	if cons != rcons {
		return vioWire("consumed-mismatch", t, "", fmt.Sprintf("schema %d library %d on %s", rcons, cons, hx(w)), w)
	}
	if d := rm.Diff(rv, dv, ""); d != "" {
		return vioWire("decode-value-mismatch", t, pathOf(d), "schema vs library at "+d+" on "+hx(w), w)
	}
	return nil
}

func runC02(r *ev.Run, thorough bool) {
	r.Rule = "encode direction: per type, values within <=k deviations incl. non-canonical text (cut/pad), library bytes == pinned-schema interpreter bytes; decode direction: reference wires of V1 plus every 1-byte substitution, 1-byte insertion (from {00,01,20,30,7F,80,FF}) and 1-byte deletion, library decode == interpreter decode (accept/reject, value, consumed); distinct = distinct (type,value) or (type,wire); non-trivial = differs from the all-zero base"
	r.Assume("schema/pinned/*.json is the specification (reverse-engineered from the pinned commit, byte order per protocol)", "hostile count/length prefixes are delegated to C09/C10")
	parTypes(r, bind.Types, func(t *rm.Type, l *ev.Local) {
		k := 1
		if thorough {
			k = 2
		}
		valenum.Enum(t, valenum.Opts{K: k, Big: true, Combos: true}, func(c *valenum.Case) bool {
			key := ev.H(t.QName() + c.V.String())
			l.Eval(key, c.Base == "D" || c.NDev > 0)
			l.States[key] = struct{}{}
			l.Transitions++
			l.Traces++
			if viol := c02Case(t, c.V); viol != nil {
				viol.Detail = "base " + c.Base + " dev {" + c.Desc + "}: " + viol.Detail
				r.Violate(viol)
				return !r.TooMany()
			}
			return true
		})
		// complete size sweeps (encode direction, and the reference wire of each through the decoder)
		st, sl := sweepBounds(thorough)
		if thorough {
			st, sl = 8300, 2000 // both directions per value: half of C01's thorough bound
		}
		ns := int64(0)
		valenum.Enum(t, valenum.Opts{K: 1, SweepText: st, SweepList: sl}, func(c *valenum.Case) bool {
			if c.NDev == 0 {
				return true
			}
			ns++
			l.Eval(ev.H(t.QName()+"sweep"+c.Base+c.Desc), true)
			l.Transitions += 2
			l.Traces++
			viol := c02Case(t, c.V)
			if viol == nil {
				if ref, _, _, rerr := rm.EncodeRef(c.V); rerr == nil {
					viol = c02Wire(t, append(ref, 0xAA, 0xBB, 0xCC))
				}
			}
			if viol != nil {
				viol.Detail = "size sweep, base " + c.Base + " dev {" + c.Desc + "}: " + viol.Detail
				r.Violate(viol)
				return !r.TooMany()
			}
			return true
		})
		r.Add("size_sweep_values", ns)
		// decode direction
		n := 0
		wireSpace(t, wireOpts{DevBaseOnly: !thorough, Dev: 1, Indel: true, IndelMaxLen: 200}, func(w []byte, desc string) bool {
			n++
			// wireSpace de-duplicates the wires of one type itself: counted as distinct, not stored again (memory)
			l.Evals++
			l.Transitions++
			l.Traces++
			viol := c02Wire(t, w)
			if viol == nil {
				viol = c02Wire(t, append(append([]byte{}, w...), trailing512...)) // followed by 512 further bytes
			}
			if viol != nil {
				viol.Detail = desc + ": " + viol.Detail
				r.Violate(viol)
				return !r.TooMany()
			}
			return true
		})
		r.Add("decode_direction_wires", int64(n))
		r.SetDistinctAdd(int64(n))
	})
	r.Sample("sse.Logon D .HeartBtInt=0x1: library bytes == schema bytes")
	r.Set("bound", map[string]any{"k_deviations": k12(thorough), "wire_deviations": 1, "types": len(bind.Types)})
}

// sweepBounds: complete size sweeps — every prefixed-text length 0..st and every list length 0..sl (DESIGN 7).
func sweepBounds(thorough bool) (st, sl int) {
	if thorough {
		return 20000, 5000
	}
	return 2200, 600
}

func k12(th bool) int {
	if th {
		return 2
	}
	return 1
}
