// Command harness runs one property check in-process against the library as
// built from /repo's current working tree (module replace => /repo).
package main

import (
	"bytes"
	"encoding/hex"
	"fmt"
	"os"
	"runtime"
	"sort"
	"sync"

	"verif/engine/bind"
	"verif/engine/ev"
	rm "verif/engine/refmodel"
)

type checkFn func(r *ev.Run, thorough bool)

var checks = map[string]checkFn{}

func main() {
	if len(os.Args) < 3 {
		fmt.Fprintln(os.Stderr, "usage: harness <ID> quick|thorough | harness replay <file> | harness worker <kind>")
		os.Exit(2)
	}
	switch os.Args[1] {
	case "replay":
		os.Exit(replay(os.Args[2]))
	case "worker":
		workerMain(os.Args[2])
		return
	}
	id, tier := os.Args[1], os.Args[2]
	fn, ok := checks[id]
	if !ok {
		fmt.Fprintln(os.Stderr, "unknown check", id)
		os.Exit(2)
	}
	if tier != "quick" && tier != "thorough" {
		fmt.Fprintln(os.Stderr, "unknown tier", tier)
		os.Exit(2)
	}
	r := ev.NewRun(id, tier)
	if tier == "thorough" {
		histSweepText, histSweepList = 8300, 1100
	} else if id == "C04" || id == "C05" {
		histSweepText, histSweepList = 1200, 150 // frame legs run every body value in several buffer states
	}
	switch id {
	case "C04", "C05", "C06", "C07", "C16":
		r.Set("size_sweep_in_value_legs", map[string]any{"every_prefixed_text_length_0_to": histSweepText, "every_list_length_0_to": histSweepList})
	}
	fn(r, tier == "thorough")
	if histDecodes > 0 {
		r.Set("history_decode_operations", map[string]any{"executed": histDecodes, "succeeded": histDecodesOK})
	}
	os.Exit(r.Finish())
}

// parTypes runs fn for every pinned type on all cores; each worker has its own accumulator.
func parTypes(r *ev.Run, types []*rm.Type, fn func(t *rm.Type, l *ev.Local)) {
	n := runtime.NumCPU()
	ch := make(chan *rm.Type)
	var wg sync.WaitGroup
	for i := 0; i < n; i++ {
		wg.Add(1)
		go func() {
			defer wg.Done()
			l := ev.NewLocal()
			for t := range ch {
				fn(t, l)
			}
			r.Merge(l)
		}()
	}
	// big types first for better balance
	ts := append([]*rm.Type{}, types...)
	sort.SliceStable(ts, func(i, j int) bool { return weight(ts[i]) > weight(ts[j]) })
	for _, t := range ts {
		ch <- t
	}
	close(ch)
	wg.Wait()
}

func weight(t *rm.Type) int {
	w := len(t.Fields)
	for i := range t.Fields {
		if t.Fields[i].Kind == "list" || t.Fields[i].Kind == "dyn" {
			w += 40
		}
	}
	return w
}

func hx(b []byte) string {
	if len(b) > 96 {
		return hex.EncodeToString(b[:96]) + fmt.Sprintf("..(%d bytes)", len(b))
	}
	return hex.EncodeToString(b)
}

// realEncode encodes v with the library into a fresh buffer; panics are returned as errors with isPanic.
func realEncode(v *rm.Value) (out []byte, msg any, err error, panicked any) {
	msg = bind.MustReal(v)
	buf := &bytes.Buffer{}
	func() {
		defer func() {
			if p := recover(); p != nil {
				panicked = p
			}
		}()
		err = bind.Encode(msg, buf)
	}()
	return append([]byte{}, buf.Bytes()...), msg, err, panicked
}

// realDecode decodes w with the library into a fresh receiver.
func realDecode(t *rm.Type, w []byte) (v *rm.Value, consumed int, err error, panicked any) {
	msg := bind.New(t)
	buf := bytes.NewBuffer(append([]byte{}, w...))
	func() {
		defer func() {
			if p := recover(); p != nil {
				panicked = p
			}
		}()
		err = bind.Decode(msg, buf)
	}()
	consumed = len(w) - buf.Len()
	if err == nil && panicked == nil {
		var e2 error
		v, e2 = bind.FromReal(t, msg)
		if e2 != nil {
			panic(e2)
		}
	}
	return
}
