package main

import (
	"fmt"
	"os"
)

var workers = map[string]func(){}

func workerMain(kind string) {
	fn, ok := workers[kind]
	if !ok {
		fmt.Fprintln(os.Stderr, "unknown worker", kind)
		os.Exit(2)
	}
	fn()
}
