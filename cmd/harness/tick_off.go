//go:build !vinstr

package main

// Without the overlay instrumentation there is no loop-iteration counter.
func tickCount() uint64 { return 0 }
func tickActive() bool  { return false }
