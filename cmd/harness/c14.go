package main

import (
	"bytes"
	"fmt"
	"runtime"
	"sort"
	"sync"

	"github.com/xinchentechnote/fin-proto-go/codec"

	"verif/engine/bind"
	"verif/engine/ev"
	rm "verif/engine/refmodel"
	"verif/engine/valenum"
)

func init() {
	checks["C14"] = runC14
	replayers["sum"] = func(prop string, rp map[string]any) *ev.Violation {
		alg := rp["alg"].(string)
		var w []byte
		if gen, ok := rp["gen"].(map[string]any); ok {
			w = genInput(gen["kind"].(string), byte(gen["byte"].(float64)), int(gen["n"].(float64)))
		} else {
			fmt.Sscanf(rp["input"].(string), "%x", &w)
		}
		return sumOne(alg, w, rp)
	}
}

var sumAlgs = []string{"CRC16", "CRC32", "SSE_BIN", "SZSE_BIN"}

// calcReal calls the registered service; returns the result sign-extended to int64 for SZSE's int32.
func calcReal(alg string, buf *bytes.Buffer) (int64, error) {
	svc, ok := codec.Get(alg)
	if !ok {
		return 0, fmt.Errorf("service %s not registered", alg)
	}
	switch s := svc.(type) {
	case codec.ChecksumService[*bytes.Buffer, uint16]:
		return int64(s.Calc(buf)), nil
	case codec.ChecksumService[*bytes.Buffer, uint32]:
		return int64(s.Calc(buf)), nil
	case codec.ChecksumService[*bytes.Buffer, int32]:
		return int64(s.Calc(buf)), nil
	}
	return 0, fmt.Errorf("service %s has an unexpected Calc signature (%T)", alg, svc)
}

func genInput(kind string, b byte, n int) []byte {
	w := make([]byte, n)
	switch kind {
	case "uniform":
		for i := range w {
			w[i] = b
		}
	case "ramp":
		for i := range w {
			w[i] = byte(i) + b
		}
	case "alt":
		for i := range w {
			if i%2 == 0 {
				w[i] = b
			} else {
				w[i] = ^b
			}
		}
	}
	return w
}

// sumOne checks one (algorithm, input): value, range, purity (buffer untouched), repeatability, consumed-prefix independence.
func sumOne(alg string, w []byte, rp map[string]any) (v *ev.Violation) {
	mk := func(kind, detail string) *ev.Violation {
		cls := fmt.Sprintf("len<=%d", 3)
		if len(w) > 3 {
			cls = "long"
		}
		if rp == nil {
			rp = map[string]any{"op": "sum", "alg": alg, "input": fmt.Sprintf("%x", w)}
		}
		return &ev.Violation{Kind: kind, Subject: alg + " " + cls, Detail: detail, Replay: rp}
	}
	defer func() {
		if p := recover(); p != nil {
			v = mk("panic", fmt.Sprint(p))
		}
	}()
	want := int64(rm.Checksum(alg, w))
	// a partially consumed buffer: 2 junk bytes already read, the checksum is of the unread part
	backing := append([]byte{0xDE, 0xAD}, w...)
	buf := bytes.NewBuffer(backing)
	buf.Next(2)
	snap := append([]byte{}, backing...)
	got, err := calcReal(alg, buf)
	if err != nil {
		return mk("service", err.Error())
	}
	if got != want {
		return mk("wrong-value", fmt.Sprintf("Calc over %s = %d (%#x), reference %d (%#x)", descIn(w), got, got, want, want))
	}
	if (alg == "SSE_BIN" || alg == "SZSE_BIN") && (got < 0 || got > 255) {
		return mk("out-of-range", fmt.Sprintf("byte-sum result %d not in 0..255", got))
	}
	if buf.Len() != len(w) || !bytes.Equal(buf.Bytes(), w) || !bytes.Equal(backing, snap) {
		return mk("buffer-modified", fmt.Sprintf("after Calc the buffer has %d unread bytes (was %d) or its bytes changed", buf.Len(), len(w)))
	}
	got2, _ := calcReal(alg, buf)
	if got2 != got {
		return mk("not-repeatable", fmt.Sprintf("second Calc on the same buffer gave %d, first %d", got2, got))
	}
	return nil
}

func descIn(w []byte) string {
	if len(w) <= 16 {
		return fmt.Sprintf("%x", w)
	}
	return fmt.Sprintf("%d bytes starting %x", len(w), w[:8])
}

func runC14(r *ev.Run, thorough bool) {
	maxLen := 2
	if thorough {
		maxLen = 3
	}
	r.Rule = fmt.Sprintf("4 services x ALL byte strings of length <= %d; byte-sum automata 256x256 and CRC16 automaton (65,536 states x %s next bytes, each state reached by its 2-byte witness) against bitwise references; long inputs: uniform runs b^n for b in %s at n = ceil(2^31/b)-1,+0,+1 (<=32 MiB; hidden accumulator wider than the output), ramps and alternations at lengths 2^k-1,2^k,2^k+1 up to 2^%d; EVERY length 4..8200 (40000 in thorough) for uniform FF, ramp and alternating patterns; PROTOCOL-SHAPED inputs: the reference encodings of every message type at bases Z/D/L and of every frame/extended message under every registered key, whole, minus their last 1/2/4/8 bytes, minus their first 4 bytes (every prefix in thorough); every case on a partially consumed buffer, checking value, range 0..255 for byte sums, buffer untouched, second call equal; distinct = (algorithm,input)", maxLen, map[bool]string{false: "16", true: "256"}[thorough], map[bool]string{false: "{80,C0,FF}", true: "40..FF"}[thorough], map[bool]int{false: 16, true: 24}[thorough])
	r.Assume("reference CRC-16/MODBUS, CRC-32/IEEE and byte sums are the bitwise implementations in engine/refmodel, checked against the published check values for \"123456789\"")
	// self-check of the references against the published check values
	if rm.CRC16Modbus([]byte("123456789")) != 0x4B37 || rm.CRC32IEEE([]byte("123456789")) != 0xCBF43926 {
		fmt.Println("reference checksum self-check failed")
		r.Cap("reference self-check failed")
		return
	}
	type job func(l *ev.Local)
	var jobs []job
	// all strings <= maxLen, sharded by first byte
	for _, alg := range sumAlgs {
		alg := alg
		jobs = append(jobs, func(l *ev.Local) {
			for _, w := range [][]byte{{}} {
				l.Eval(ev.H(alg+string(w)), false)
				if v := sumOne(alg, w, nil); v != nil {
					r.Violate(v)
				}
			}
		})
		for a := 0; a < 256; a++ {
			a := a
			jobs = append(jobs, func(l *ev.Local) {
				var n int64
				run := func(w []byte) {
					n++
					if v := sumOne(alg, w, nil); v != nil {
						r.Violate(v)
					}
				}
				run([]byte{byte(a)})
				for b := 0; b < 256; b++ {
					run([]byte{byte(a), byte(b)})
					if maxLen >= 3 {
						for c := 0; c < 256; c++ {
							run([]byte{byte(a), byte(b), byte(c)})
						}
					} else if alg == "CRC16" {
						// CRC16 automaton in quick: state reached by (a,b) x 16 next bytes
						for c := 0; c < 256; c += 17 {
							run([]byte{byte(a), byte(b), byte(c)})
						}
					}
				}
				l.Evals += n
				l.Transitions += n
				l.Traces += n
				r.SetDistinctAdd(n)
			})
		}
	}
	// long families
	lo := 0x40
	bs := []int{}
	if thorough {
		for b := lo; b < 256; b++ {
			bs = append(bs, b)
		}
	} else {
		bs = []int{0x80, 0xC0, 0xFF}
	}
	for _, alg := range sumAlgs {
		alg := alg
		for _, b := range bs {
			b := b
			jobs = append(jobs, func(l *ev.Local) {
				c := (uint64(1)<<31 + uint64(b) - 1) / uint64(b)
				for _, n := range []uint64{c - 1, c, c + 1} {
					w := genInput("uniform", byte(b), int(n))
					rp := map[string]any{"op": "sum", "alg": alg, "gen": map[string]any{"kind": "uniform", "byte": b, "n": n}}
					l.Evals++
					l.Transitions++
					l.Traces++
					r.SetDistinctAdd(1)
					if v := sumOne(alg, w, rp); v != nil {
						r.Violate(v)
					}
				}
			})
		}
		maxK := 16
		if thorough {
			maxK = 24
		}
		for k := 2; k <= maxK; k++ {
			k := k
			jobs = append(jobs, func(l *ev.Local) {
				for _, n := range []int{1<<k - 1, 1 << k, 1<<k + 1} {
					for _, kind := range []string{"ramp", "alt"} {
						for _, b := range []byte{0x00, 0x7F, 0xFF} {
							w := genInput(kind, b, n)
							rp := map[string]any{"op": "sum", "alg": alg, "gen": map[string]any{"kind": kind, "byte": int(b), "n": n}}
							l.Evals++
							l.Transitions++
							l.Traces++
							r.SetDistinctAdd(1)
							if v := sumOne(alg, w, rp); v != nil {
								r.Violate(v)
							}
						}
					}
				}
			})
		}
	}
	// every length 0..maxEvery for three patterns: catches defects tied to a particular length, block size or
	// alignment (vectorised or multi-byte-per-step implementations) that powers of two +-1 would miss
	maxEvery := 8200
	if thorough {
		maxEvery = 40000
	}
	for _, alg := range sumAlgs {
		alg := alg
		for _, pat := range []struct {
			kind string
			b    byte
		}{{"uniform", 0xFF}, {"ramp", 0x80}, {"alt", 0x7F}} {
			pat := pat
			jobs = append(jobs, func(l *ev.Local) {
				for n := 4; n <= maxEvery; n++ {
					w := genInput(pat.kind, pat.b, n)
					rp := map[string]any{"op": "sum", "alg": alg, "gen": map[string]any{"kind": pat.kind, "byte": int(pat.b), "n": n}}
					l.Evals++
					l.Transitions++
					l.Traces++
					r.SetDistinctAdd(1)
					if v := sumOne(alg, w, rp); v != nil {
						r.Violate(v)
						return
					}
				}
			})
		}
	}
	// protocol-shaped inputs: what a checksum service is given in practice is a frame, not a pattern. For every
	// message type the reference encodings of the bases Z, D, L (for frames / extended messages: of every
	// registered key at Z and D) are fed to all four services whole, without their last 4 / last 1 bytes
	// (header+body without a trailer), without their first 4 bytes, and (thorough) at every prefix length.
	for _, t := range bind.Types {
		t := t
		jobs = append(jobs, func(l *ev.Local) {
			var wires [][]byte
			add := func(v *rm.Value) {
				if w, err := rm.EncodeBytes(v); err == nil && len(w) > 0 && len(w) <= 1<<16 {
					wires = append(wires, w)
				}
			}
			add(rm.Zero(t))
			add(valenum.Distinct(t))
			add(valenum.Long(t))
			if di := t.DynField(); di >= 0 {
				tab := t.Proto.Table(t.Fields[di].Factory)
				keys := make([]string, 0, len(tab.Entries))
				for k := range tab.Entries {
					keys = append(keys, k)
				}
				sort.Strings(keys)
				for _, k := range keys {
					add(valenum.WithKey(t, k, "Z"))
					add(valenum.WithKey(t, k, "D"))
				}
			}
			seen := map[uint64]struct{}{}
			for _, w := range wires {
				var ins [][]byte
				if thorough {
					for n := 1; n <= len(w); n++ {
						ins = append(ins, w[:n])
					}
				} else {
					ins = append(ins, w)
					for _, cut := range []int{1, 2, 4, 8} {
						if len(w) > cut {
							ins = append(ins, w[:len(w)-cut])
						}
					}
				}
				if len(w) > 4 {
					ins = append(ins, w[4:])
				}
				for _, in := range ins {
					h := ev.H(string(in))
					if _, ok := seen[h]; ok {
						continue
					}
					seen[h] = struct{}{}
					for _, alg := range sumAlgs {
						l.Evals++
						l.Transitions++
						l.Traces++
						r.SetDistinctAdd(1)
						if v := sumOne(alg, in, nil); v != nil {
							v.Subject = alg + " protocol-shaped"
							v.Detail = "input = reference encoding of " + t.QName() + " (or a prefix/suffix of it): " + v.Detail
							r.Violate(v)
							return
						}
					}
				}
			}
		})
	}
	ch := make(chan job)
	var wg sync.WaitGroup
	for i := 0; i < runtime.NumCPU(); i++ {
		wg.Add(1)
		go func() {
			defer wg.Done()
			l := ev.NewLocal()
			for j := range ch {
				j(l)
			}
			r.Merge(l)
		}()
	}
	for _, j := range jobs {
		ch <- j
	}
	close(ch)
	wg.Wait()
	r.Sample(map[string]any{"alg": "SZSE_BIN", "input": "uniform 0xFF x 8421505", "reference": 127})
	r.Sample(map[string]any{"alg": "CRC16", "input": "0102", "reference": fmt.Sprintf("%#x", rm.CRC16Modbus([]byte{1, 2}))})
	r.Set("bound", map[string]any{"exhaustive_len": maxLen, "long_uniform_bytes": len(bs), "max_long_len": "32 MiB"})
	r.Set("not_covered", "uniform runs of bytes < 0x40 long enough to overflow a 32-bit accumulator need > 32 MiB and are left out")
}
