package main

import (
	"bytes"
	"fmt"
	"runtime"
	"sync"

	"github.com/xinchentechnote/fin-proto-go/codec"

	"verif/engine/ev"
	rm "verif/engine/refmodel"
)

func init() {
	checks["C13"] = runC13
	replayers["fixtext"] = func(prop string, rp map[string]any) *ev.Violation {
		n := int(rp["width"].(float64))
		pad := byte(rp["pad"].(float64))
		left := rp["left"].(bool)
		var s []byte
		fmt.Sscanf(rp["text"].(string), "%x", &s)
		return c13One(n, pad, left, s, rp["variant"].(string))
	}
}

func c13Vio(kind string, n int, pad byte, left bool, s []byte, variant, detail string) *ev.Violation {
	cls := "pad<0x80"
	if pad >= 0x80 {
		cls = "pad>=0x80"
	}
	side := "right"
	if left {
		side = "left"
	}
	return &ev.Violation{Kind: kind, Subject: fmt.Sprintf("%s %s %s", variant, cls, side),
		Detail: fmt.Sprintf("width %d pad %#02x side %s text %q: %s", n, pad, side, s, detail),
		Replay: map[string]any{"op": "fixtext", "width": n, "pad": int(pad), "left": left, "text": fmt.Sprintf("%x", s), "variant": variant}}
}

// c13One checks one (width, pad, side, text) on the scalar or list variant:
// write == cut/pad spec; read(written) strips only the pad byte from the pad side;
// and reading the raw text itself as an N-byte wire (when len == N) likewise.
func c13One(n int, pad byte, left bool, s []byte, variant string) (v *ev.Violation) {
	defer func() {
		if p := recover(); p != nil {
			v = c13Vio("panic", n, pad, left, s, variant, fmt.Sprint(p))
		}
	}()
	want := rm.FixText(s, n, pad, left)
	// a reused buffer: spare capacity holds stale non-zero bytes (as after Reset), one prior byte must stay
	buf := bytes.NewBuffer(bytes.Repeat([]byte{0xAA}, 64+2*n)[:0])
	buf.Write([]byte{0xA5})
	var err error
	switch variant {
	case "scalar":
		err = codec.WriteFixedStringWithPadding(buf, string(s), n, rune(pad), left)
	case "default":
		err = codec.WriteFixedString(buf, string(s), n)
	case "list":
		// three elements: a full-width one first, so that anything carried over from one element to the next shows
		full := bytes.Repeat([]byte{'Q'}, n)
		err = codec.WriteFixedStringListWithPadding[uint8](buf, []string{string(full), string(s), string(s)}, n, rune(pad), left)
		want = append(append(append([]byte{3}, full...), want...), want...)
	case "listLE":
		full := bytes.Repeat([]byte{'Q'}, n)
		err = codec.WriteFixedStringListWithPaddingLE[uint16](buf, []string{string(full), string(s)}, n, rune(pad), left)
		want = append(append([]byte{2, 0}, full...), want...)
	}
	if err != nil {
		return c13Vio("write-error", n, pad, left, s, variant, err.Error())
	}
	got := buf.Bytes()[1:]
	if buf.Bytes()[0] != 0xA5 || !bytes.Equal(got, want) {
		return c13Vio("write-bytes", n, pad, left, s, variant, fmt.Sprintf("wrote %x want %x", got, want))
	}
	// read back what was written, followed by a sentinel that must stay unread
	wire := append(append([]byte{}, got...), 0x5A)
	rb := bytes.NewBuffer(wire)
	field := rm.FixText(s, n, pad, left)
	wantText := rm.StripText(field, pad, left)
	switch variant {
	case "scalar":
		r, e := codec.ReadFixedStringTrimPadding(rb, n, rune(pad), left)
		if e != nil || r != string(wantText) {
			return c13Vio("read-text", n, pad, left, s, variant, fmt.Sprintf("field %x read as %q (err %v), want %q", field, r, e, wantText))
		}
	case "default":
		r, e := codec.ReadFixedString(rb, n)
		if e != nil || r != string(wantText) {
			return c13Vio("read-text", n, pad, left, s, variant, fmt.Sprintf("field %x read as %q (err %v), want %q", field, r, e, wantText))
		}
	case "list":
		r, e := codec.ReadFixedStringListTrimPadding[uint8](rb, n, rune(pad), left)
		fullText := string(rm.StripText(bytes.Repeat([]byte{'Q'}, n), pad, left))
		if e != nil || len(r) != 3 || r[0] != fullText || r[1] != string(wantText) || r[2] != string(wantText) {
			return c13Vio("read-text", n, pad, left, s, variant, fmt.Sprintf("fields %x read as %q (err %v), want [%q %q %q]", field, r, e, fullText, wantText, wantText))
		}
	case "listLE":
		r, e := codec.ReadFixedStringListTrimPaddingLE[uint16](rb, n, rune(pad), left)
		fullText := string(rm.StripText(bytes.Repeat([]byte{'Q'}, n), pad, left))
		if e != nil || len(r) != 2 || r[0] != fullText || r[1] != string(wantText) {
			return c13Vio("read-text", n, pad, left, s, variant, fmt.Sprintf("field %x read as %q (err %v), want [%q %q]", field, r, e, fullText, wantText))
		}
	}
	if rb.Len() != 1 || rb.Bytes()[0] != 0x5A {
		return c13Vio("read-consumed", n, pad, left, s, variant, fmt.Sprintf("%d bytes left unread, want exactly the 1-byte sentinel", rb.Len()))
	}
	return nil
}

func runC13(r *ev.Run, thorough bool) {
	pads := []int{0x20, 0x30, 0x00, 0x7F, 0x80, 0xFF, 0xC2, 0x61}
	if thorough {
		pads = pads[:0]
		for p := 0; p < 256; p++ {
			pads = append(pads, p)
		}
	}
	r.Rule = fmt.Sprintf("primitive level: widths {0,1,2,3,4} x %d pad bytes x both sides x ALL byte strings of length <= 2 (65,793) + all strings of length 3..N+2 over {pad,'a',20,30,00,80,FF}; widths {8,120} x text alphabet; scalar variant for everything, default-pad and list (BE uint8 count, LE uint16 count) variants for the strings of length <= 1 and the alphabet strings; oracle: written bytes == cut/pad spec with prior byte intact, read strips only the pad byte from the pad side and consumes exactly N bytes; distinct = (variant,width,pad,side,text)", len(pads))
	type job struct {
		n    int
		pad  byte
		left bool
	}
	var jobs []job
	for _, n := range []int{0, 1, 2, 3, 4, 8, 120} {
		for _, p := range pads {
			for _, left := range []bool{false, true} {
				jobs = append(jobs, job{n, byte(p), left})
			}
		}
	}
	ch := make(chan job)
	var wg sync.WaitGroup
	for i := 0; i < runtime.NumCPU(); i++ {
		wg.Add(1)
		go func() {
			defer wg.Done()
			l := ev.NewLocal()
			var evals int64
			for j := range ch {
				if r.TooMany() {
					continue
				}
				run := func(s []byte, variants ...string) {
					for _, vr := range variants {
						evals++
						if v := c13One(j.n, j.pad, j.left, s, vr); v != nil {
							r.Violate(v)
						}
					}
				}
				al := []byte{j.pad, 'a', 0x20, 0x30, 0x00, 0x80, 0xFF}
				if j.n <= 4 {
					run([]byte{}, "scalar", "list", "listLE")
					for a := 0; a < 256; a++ {
						run([]byte{byte(a)}, "scalar", "list", "listLE")
						for b := 0; b < 256; b++ {
							run([]byte{byte(a), byte(b)}, "scalar")
						}
					}
					// longer strings over the small alphabet
					for ln := 3; ln <= j.n+2; ln++ {
						s := make([]byte, ln)
						var rec func(i int)
						rec = func(i int) {
							if i == ln {
								run(s, "scalar", "list", "listLE")
								return
							}
							for _, c := range al {
								s[i] = c
								rec(i + 1)
							}
						}
						rec(0)
					}
				} else {
					// wide fields: structured members
					mk := func(parts ...[]byte) []byte { return bytes.Join(parts, nil) }
					rep := func(c byte, k int) []byte { return bytes.Repeat([]byte{c}, k) }
					ms := [][]byte{{}, {'a'}, rep('b', j.n-1), rep('c', j.n), rep('d', j.n+1), rep('e', j.n+5),
						mk([]byte{j.pad}, rep('f', 2)), mk(rep('g', 2), []byte{j.pad}), mk([]byte{'h', j.pad, 'h'}), rep(j.pad, j.n), rep(j.pad, 1),
						mk(rep(j.pad, j.n-1), []byte{'i'}), mk([]byte{'i'}, rep(j.pad, j.n-1)), {0xE4, 0xB8, 0xAD}, mk(rep('j', j.n-1), []byte{0xE4, 0xB8, 0xAD}), {0, 0}, {0xFF, 0xFE}}
					for _, s := range ms {
						run(s, "scalar", "list", "listLE")
					}
				}
				if j.pad == ' ' && !j.left {
					for _, s := range [][]byte{{}, {'a'}, {' ', 'a'}, {'a', ' '}, {'a', ' ', 'b'}, bytes.Repeat([]byte{'x'}, j.n+1), {0}, {0x80}} {
						run(s, "default")
					}
				}
				l.States[ev.H(fmt.Sprint(j))] = struct{}{}
			}
			l.Evals = evals
			l.Transitions = evals * 2
			l.Traces = evals
			r.Merge(l)
			r.SetDistinctAdd(evals)
		}()
	}
	for _, j := range jobs {
		ch <- j
	}
	close(ch)
	wg.Wait()
	// long lists (more elements than any plausible block of cells), element lengths cycling with periods 3, 5 and 7
	for _, n := range []int{2, 3, 8} {
		for _, pad := range []byte{' ', '0', 0} {
			for _, left := range []bool{false, true} {
				for _, count := range []int{65, 130, 200} {
					for _, period := range []int{3, 5, 7} {
						if v := c13LongList(n, pad, left, count, period); v != nil {
							r.Violate(v)
						}
						r.AddEvals(1)
						r.SetDistinctAdd(1)
					}
				}
			}
		}
	}
	r.Sample(map[string]any{"width": 4, "pad": "0x80", "side": "right", "text": "ab", "written": "61628080", "read": "ab"})
	r.Sample(map[string]any{"width": 2, "pad": "0x30", "side": "left", "text": "a0b", "written": "6130", "read": "a0"})
	r.Set("bound", map[string]any{"widths": []int{0, 1, 2, 3, 4, 8, 120}, "pads": len(pads), "max_text_len_exhaustive": 2})
	r.Set("distinct_note", "every enumerated (variant,width,pad,side,text) tuple is distinct by construction; distinct_nontrivial == evaluations")
}

// c13LongList writes a list of count texts whose lengths cycle 0..width with the given period (BE and LE variants)
// and compares every cell with the cut/pad specification.
func c13LongList(n int, pad byte, left bool, count, period int) (v *ev.Violation) {
	defer func() {
		if p := recover(); p != nil {
			v = c13Vio("panic", n, pad, left, nil, "long-list", fmt.Sprint(p))
		}
	}()
	vals := make([]string, count)
	var want []byte
	for i := range vals {
		l := (n * ((count - i) % period)) / (period - 1) // lengths go up and down along the list
		if l > n {
			l = n
		}
		b := make([]byte, l)
		for j := range b {
			b[j] = byte('A' + (i+j)%26)
		}
		vals[i] = string(b)
		want = append(want, rm.FixText(b, n, pad, left)...)
	}
	for _, le := range []bool{false, true} {
		buf := bytes.NewBuffer(bytes.Repeat([]byte{0xAA}, 32)[:0])
		var err error
		if le {
			err = codec.WriteFixedStringListWithPaddingLE[uint16](buf, vals, n, rune(pad), left)
		} else {
			err = codec.WriteFixedStringListWithPadding[uint16](buf, vals, n, rune(pad), left)
		}
		if err != nil || buf.Len() != 2+len(want) {
			return c13Vio("write-error", n, pad, left, nil, "long-list", fmt.Sprintf("%d elements, period %d: err=%v, %d bytes", count, period, err, buf.Len()))
		}
		if got := buf.Bytes()[2:]; !bytes.Equal(got, want) {
			i := 0
			for i < len(want) && got[i] == want[i] {
				i++
			}
			return c13Vio("write-bytes", n, pad, left, []byte(vals[i/n]), "long-list", fmt.Sprintf("%d elements, period %d, le=%v: cell %d is %x, want %x", count, period, le, i/n, got[(i/n)*n:(i/n)*n+n], want[(i/n)*n:(i/n)*n+n]))
		}
	}
	return nil
}
