package main

import (
	"encoding/hex"
	"encoding/json"
	"fmt"
	"os"

	"verif/engine/bind"
	"verif/engine/ev"
	rm "verif/engine/refmodel"
)

// replayers for ops other than "value"/"wire" register here.
var replayers = map[string]func(prop string, rp map[string]any) *ev.Violation{}

// replay re-executes one recorded violation without any explorer: plain calls in recorded order.
func replay(path string) int {
	b, err := os.ReadFile(path)
	if err != nil {
		fmt.Fprintln(os.Stderr, err)
		return 2
	}
	var v ev.Violation
	if err := json.Unmarshal(b, &v); err != nil {
		fmt.Fprintln(os.Stderr, err)
		return 2
	}
	op, _ := v.Replay["op"].(string)
	var got *ev.Violation
	switch op {
	case "value":
		t := bind.TypeByQName(v.Replay["type"].(string))
		val, err := rm.FromJSON(v.Replay["value"], bind.TypeByQName)
		if err != nil || t == nil {
			fmt.Fprintln(os.Stderr, "replay: bad value:", err)
			return 2
		}
		fn := caseChecks[v.Property]
		if k, ok := v.Replay["check"].(string); ok {
			fn = caseChecks[k]
		}
		if fn == nil {
			fmt.Fprintln(os.Stderr, "replay: no value checker for", v.Property)
			return 2
		}
		if wn, ok := v.Replay["warm_session"].(float64); ok && wn > 0 {
			warmSession(ev.NewRun("replay", "replay"), int(wn)) // found after a long session: replay the session first
		}
		got = fn(t, val)
	case "wire":
		t := bind.TypeByQName(v.Replay["type"].(string))
		w, err := hex.DecodeString(v.Replay["wire"].(string))
		if err != nil || t == nil {
			fmt.Fprintln(os.Stderr, "replay: bad wire:", err)
			return 2
		}
		fn := wireChecks[v.Property]
		if k, ok := v.Replay["check"].(string); ok {
			fn = wireChecks[k]
		}
		if fn == nil {
			fmt.Fprintln(os.Stderr, "replay: no wire checker for", v.Property)
			return 2
		}
		got = fn(t, w)
	default:
		fn := replayers[op]
		if fn == nil {
			fmt.Fprintln(os.Stderr, "replay: unknown op", op)
			return 2
		}
		got = fn(v.Property, v.Replay)
	}
	if got == nil {
		fmt.Printf("replay: property %s holds on this case (recorded: %s [%s])\n", v.Property, v.Kind, v.Subject)
		return 0
	}
	fmt.Printf("VIOLATION property=%s replay=%s\n  %s [%s] %s\n", v.Property, path, got.Kind, got.Subject, got.Detail)
	return 1
}
