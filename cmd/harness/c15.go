package main

import (
	"bytes"
	"fmt"
	"regexp"
	"strings"
	"sync/atomic"

	"verif/engine/bind"
	"verif/engine/ev"
	rm "verif/engine/refmodel"
	"verif/engine/valenum"
)

func init() {
	checks["C15"] = runC15
	replayers["receiver"] = func(prop string, rp map[string]any) *ev.Violation {
		t := bind.TypeByQName(rp["type"].(string))
		var start *rm.Value
		if rp["start"] != nil {
			start, _ = rm.FromJSON(rp["start"], bind.TypeByQName)
		}
		var evs [][]byte
		for _, e := range rp["events"].([]any) {
			var b []byte
			fmt.Sscanf(e.(string), "%x", &b)
			evs = append(evs, b)
		}
		spare := 0
		if f, ok := rp["spare"].(float64); ok {
			spare = int(f)
		}
		return c15RunX(t, start, spare, evs[:len(evs)-1], evs[len(evs)-1], nil)
	}
}

func isStructural(desc string) bool {
	return containsAny(desc, "=n=", "=nil", "=empty", "=key ", "=len ", "=[")
}

// c15Events: valid wires (structural first) and failing truncations for the receiver-history exploration.
func c15Events(t *rm.Type, maxValid, maxTrunc int) (valid [][]byte, trunc [][]byte) {
	var structural, other [][]byte
	seeds(t, true, false, func(w []byte, c *valenum.Case) bool {
		if len(w) > 2048 {
			return true
		}
		cp := append([]byte{}, w...)
		if c.NDev == 0 || isStructural(c.Desc) {
			structural = append(structural, cp)
		} else {
			other = append(other, cp)
		}
		return true
	})
	valid = append(valid, structural...)
	for _, w := range other {
		if len(valid) >= maxValid {
			break
		}
		valid = append(valid, w)
	}
	if len(valid) > maxValid {
		valid = valid[:maxValid]
	}
	// truncations of the D and L wires at every field boundary
	for _, base := range []*rm.Value{valenum.Distinct(t), valenum.Long(t)} {
		ref, segs, _, err := rm.EncodeRef(base)
		if err != nil {
			continue
		}
		for _, s := range segs {
			if s.Off > 0 && s.Off < len(ref) && len(trunc) < maxTrunc {
				trunc = append(trunc, append([]byte{}, ref[:s.Off]...))
			}
		}
	}
	return
}

// c15Run decodes the prefix events into one receiver (starting fresh or hand-dirtied), then the final
// event into it and into a fresh receiver; if the final decode succeeds both must be equal.
func c15Run(t *rm.Type, start *rm.Value, prefix [][]byte, final []byte, l *ev.Local) (v *ev.Violation) {
	return c15RunX(t, start, 0, prefix, final, l)
}

// c15RunX: as c15Run; spare > 0 gives every list of the start state that many elements of spare capacity.
func c15RunX(t *rm.Type, start *rm.Value, spare int, prefix [][]byte, final []byte, l *ev.Local) (v *ev.Violation) {
	mk := func(kind, where, detail string) *ev.Violation {
		var evs []string
		for _, p := range prefix {
			evs = append(evs, fmt.Sprintf("%x", p))
		}
		evs = append(evs, fmt.Sprintf("%x", final))
		rp := map[string]any{"op": "receiver", "type": t.QName(), "events": evs}
		if start != nil {
			rp["start"] = rm.ToJSON(start)
		}
		if spare != 0 {
			rp["spare"] = spare
		}
		return &ev.Violation{Kind: kind, Subject: t.QName() + " " + where, Detail: detail, Replay: rp}
	}
	defer func() {
		if p := recover(); p != nil {
			v = mk("panic", "", fmt.Sprint(p))
		}
	}()
	var recv any
	if start != nil {
		recv = bind.MustReal(start)
		if spare > 0 {
			bind.AddSpare(recv, spare)
		} else if spare == -1 {
			bind.AliasParts(recv) // a hand-built receiver whose list elements are one shared object
		}
	} else {
		recv = bind.New(t)
	}
	for _, e := range prefix {
		_ = bind.Decode(recv, bytes.NewBuffer(append([]byte{}, e...)))
		if l != nil {
			l.Transitions++
			l.States[bind.MustFrom(t, recv).Hash()] = struct{}{}
		}
	}
	errDirty := bind.Decode(recv, bytes.NewBuffer(append([]byte{}, final...)))
	fresh := bind.New(t)
	errFresh := bind.Decode(fresh, bytes.NewBuffer(append([]byte{}, final...)))
	if l != nil {
		l.Transitions += 2
	}
	if (errDirty == nil) != (errFresh == nil) {
		return mk("accept-depends-on-receiver", "", fmt.Sprintf("dirty receiver err=%v, fresh receiver err=%v", errDirty, errFresh))
	}
	if errFresh != nil {
		return nil
	}
	a, b := bind.MustFrom(t, recv), bind.MustFrom(t, fresh)
	if l != nil {
		l.States[a.Hash()] = struct{}{}
	}
	if d := rm.Diff(b, a, ""); d != "" {
		return mk("result-depends-on-receiver", pathOf(d), fmt.Sprintf("after %d earlier decode(s) the same bytes decode differently: fresh vs dirty at %s", len(prefix), d))
	}
	return nil
}

func runC15(r *ev.Run, thorough bool) {
	maxValid, maxTrunc, depth := 12, 8, 2
	if thorough {
		maxValid, maxTrunc, depth = 40, 30, 2
	}
	r.Rule = fmt.Sprintf("per type: events = up to %d valid wires (bases Z, D and every structural deviation: list lengths 0..3/255..257, every registered key, text lengths) + up to %d failing truncations at field boundaries and wires with unregistered discriminators; ALL event sequences of length <= %d decoded into ONE receiver starting from {fresh, hand-dirtied with the long variant, hand-dirtied with bodies of other registered types, key field naming one type while holding a body of another}, then every valid wire decoded into that receiver and into a fresh one; plus EVERY canonical V1 wire decoded into each hand-dirtied receiver and into receivers derived from the wire's own value (the same message; the same with every text padded out to its width / followed by a space; the same with every text one byte short); plus LADDERS: for every list / prefixed-text position, wires with that position at sizes 0..9 decoded into one receiver along 6 ladder patterns (growing, shrinking, zigzag; up to 10 decodes, checked after every step), and into receivers whose lists have 1 / 4 slots of spare capacity behind their length or whose list elements are all one shared object (a hand-built message reused as receiver); oracle: equal results, no panic; states = distinct receiver contents reached, transitions = decode events applied; distinct = (type,start,event sequence,final)", maxValid, maxTrunc, depth)
	parTypes(r, bind.Types, func(t *rm.Type, l *ev.Local) {
		valid, trunc := c15Events(t, maxValid, maxTrunc)
		if t.DynField() >= 0 {
			// wires with unregistered discriminators: they fail in a fresh receiver, possibly after overwriting the key
			uk := unknownKeyWires(t)
			for i := 0; i < len(uk) && i < 3; i++ {
				trunc = append(trunc, uk[i*len(uk)/3])
			}
		}
		events := append(append([][]byte{}, valid...), trunc...)
		starts := []*rm.Value{nil, valenum.Long(t)}
		if t.DynField() >= 0 {
			tab := dynTable(t)
			starts = append(starts, valenum.WithKey(t, tab.Order[0], "L"))
			if len(tab.Order) > 1 {
				starts = append(starts, valenum.WithKey(t, tab.Order[1], "D"))
				// a receiver whose key field names one registered type while it holds a body of another
				// (what a failed decode leaves behind: key already overwritten, body still the old one)
				for _, kk := range [][2]string{{tab.Order[0], tab.Order[len(tab.Order)-1]}, {tab.Order[len(tab.Order)-1], tab.Order[0]}, {tab.Order[1], tab.Order[0]}} {
					mixed := valenum.WithKey(t, kk[0], "D")
					mixed.Fields[t.FieldIndex(t.Fields[t.DynField()].Key)] = rm.KeyValue(tab, kk[1])
					starts = append(starts, mixed)
				}
			}
		}
		for si, st := range starts {
			seq := make([][]byte, 0, depth)
			var rec func() bool
			rec = func() bool {
				finals := valid
				if len(seq) >= 1 {
					finals = events // after some history also the failing wires: accept/reject must not depend on the receiver
				}
				for fi, f := range finals {
					key := ev.H(fmt.Sprint(t.QName(), si, fi, len(seq)) + strings.Join(bytesToStrings(seq), "|"))
					l.Eval(key, len(seq) > 0 || st != nil)
					l.Traces++
					if v := c15Run(t, st, seq, f, l); v != nil {
						r.Violate(v)
						if r.TooMany() {
							return false
						}
					}
				}
				if len(seq) == depth {
					return true
				}
				evs := events
				if len(seq) >= 1 && !thorough && len(evs) > 10 {
					// second level in quick: a mix of valid wires and failing truncations
					evs = append(append([][]byte{}, valid[:min(5, len(valid))]...), trunc[:min(5, len(trunc))]...)
				}
				for _, e := range evs {
					seq = append(seq, e)
					ok := rec()
					seq = seq[:len(seq)-1]
					if !ok {
						return false
					}
				}
				return true
			}
			if !rec() {
				return
			}
		}
	})
	// the value dimension: EVERY canonical V1 wire decoded into each hand-dirtied receiver and into a fresh one
	parTypes(r, bind.Types, func(t *rm.Type, l *ev.Local) {
		starts := []*rm.Value{valenum.Long(t), valenum.Distinct(t)}
		if t.DynField() >= 0 {
			tab := dynTable(t)
			starts = append(starts, valenum.WithKey(t, tab.Order[0], "L"))
			if len(tab.Order) > 1 {
				mixed := valenum.WithKey(t, tab.Order[0], "D")
				mixed.Fields[t.FieldIndex(t.Fields[t.DynField()].Key)] = rm.KeyValue(tab, tab.Order[len(tab.Order)-1])
				starts = append(starts, mixed)
			}
		}
		seeds(t, true, false, func(w []byte, c *valenum.Case) bool {
			if len(w) > 4096 {
				return true
			}
			// start states derived from the value on the wire itself: a receiver that already holds this very message,
			// holds it with every text spelled non-canonically (padded out to its field width on the pad side / followed
			// by a space), or holds it with every text one byte short: "already equal, keep it" shortcuts live here
			self := []*rm.Value{c.V,
				valenum.MapTexts(c.V, func(f *rm.Field, txt []byte) []byte {
					if f.Kind != "fixtext" {
						return append(append([]byte{}, txt...), ' ')
					}
					pad := bytes.Repeat([]byte{byte(f.Pad)}, max(f.Width-len(txt), 0))
					if f.Left {
						return append(pad, txt...)
					}
					return append(append([]byte{}, txt...), pad...)
				}),
				valenum.MapTexts(c.V, func(f *rm.Field, txt []byte) []byte {
					if len(txt) == 0 {
						return []byte{byte(max(f.Pad, ' '))}
					}
					return append([]byte{}, txt[:len(txt)-1]...)
				})}
			for si, st := range append(append([]*rm.Value{}, starts...), self...) {
				l.Eval(ev.H(fmt.Sprint(t.QName(), "v1", si)+string(w)), true)
				l.Traces++
				if v := c15Run(t, st, nil, w, l); v != nil {
					r.Violate(v)
					return !r.TooMany()
				}
			}
			return true
		})
	})
	c15Ladders(r, "C15")
	r.Sample("sample.NestedPacket: start=hand-dirtied(L), events [wire(D), trunc(L)@.SubPacketList], final wire(Z): dirty == fresh")
	r.Set("bound", map[string]any{"max_valid_events": maxValid, "max_failing_events": maxTrunc, "history_depth": depth})
}

func bytesToStrings(bs [][]byte) []string {
	out := make([]string, len(bs))
	for i, b := range bs {
		out[i] = string(b)
	}
	return out
}

var ladderRe = regexp.MustCompile(`^(.*)=(n=|len |\[len |\[x, len )(\d+)`)

// ladderPatterns: size sequences (indices 0..9) decoded one after the other into ONE receiver.
var ladderPatterns = [][]int{
	{1, 2, 3, 4, 5, 6, 7, 8, 9}, {9, 8, 7, 6, 5, 4, 3, 2, 1, 0}, {3, 1, 4, 1, 5, 9, 2, 6, 5, 3}, {0, 9, 0, 9, 1}, {8, 2, 8, 3, 8, 4}, {2, 2, 3, 3, 5, 5, 9, 9},
}

// c15Ladders: long structured receiver histories.  For every list / prefixed-text position of every type, wires in which
// that position has size 0..9 are decoded into ONE receiver along each ladder pattern (growing, shrinking, zigzag ...;
// up to 10 decodes), starting from a fresh receiver and from receivers whose lists have spare capacity behind their
// length (a caller's make([]T, n, n+k), or what append's doubling leaves); after every step the result must equal the
// decode of the same bytes into a fresh receiver, and nothing may panic.  prop selects the findings reported: C15 all,
// C09 panics only.
func c15Ladders(r *ev.Run, prop string) {
	var nl, ns int64
	parTypes(r, bind.Types, func(t *rm.Type, l *ev.Local) {
		byPos := map[string][][]byte{}
		var order []string
		valenum.Enum(t, valenum.Opts{K: 1, Canonical: true, SweepText: 9, SweepList: 9}, func(c *valenum.Case) bool {
			if c.NDev == 0 || c.Base != "D" {
				return true
			}
			m := ladderRe.FindStringSubmatch(c.Desc)
			if m == nil {
				return true
			}
			w, err := rm.EncodeBytes(c.V)
			if err != nil {
				return true
			}
			k := m[1] + " " + m[2]
			if _, ok := byPos[k]; !ok {
				order = append(order, k)
			}
			byPos[k] = append(byPos[k], w)
			return true
		})
		report := func(v *ev.Violation, what string) bool {
			if v == nil || (prop == "C09" && v.Kind != "panic") {
				return true
			}
			if prop == "C09" {
				v.Kind = "decode-panic"
			}
			v.Detail = what + ": " + v.Detail
			r.Violate(v)
			return !r.TooMany()
		}
		for _, k := range order {
			ws := byPos[k]
			if len(ws) < 10 {
				continue
			}
			for pi, pat := range ladderPatterns {
				seq := make([][]byte, len(pat))
				for i, x := range pat {
					seq[i] = ws[x]
				}
				for i := 1; i < len(seq); i++ {
					l.Eval(ev.H(fmt.Sprint(t.QName(), "ladder", k, pi, i)), true)
					l.Traces++
					atomic.AddInt64(&nl, 1)
					if !report(c15Run(t, nil, seq[:i], seq[i], l), fmt.Sprintf("ladder %v of sizes at %s, step %d", pat, k, i)) {
						return
					}
				}
			}
			// receivers whose lists carry spare capacity, then each size
			for _, st := range []*rm.Value{valenum.Distinct(t), valenum.Long(t), rm.Zero(t)} {
				for _, spare := range []int{1, 4, -1} {
					for x, w := range ws {
						l.Eval(ev.H(fmt.Sprint(t.QName(), "spare", k, spare, x)+st.String()), true)
						l.Traces++
						atomic.AddInt64(&ns, 1)
						if !report(c15RunX(t, st, spare, nil, w, l), fmt.Sprintf("receiver lists with %d spare slots (-1: all elements of a list are one shared object), size %d at %s", spare, x, k)) {
							return
						}
						if !report(c15RunX(t, st, spare, [][]byte{ws[2]}, w, l), fmt.Sprintf("receiver lists with %d spare slots, size 2 then %d at %s", spare, x, k)) {
							return
						}
					}
				}
			}
		}
	})
	r.Add("ladder_steps", nl)
	r.Add("spare_capacity_starts", ns)
}
