package main

import (
	"bytes"
	"errors"
	"fmt"

	"verif/engine/bind"
	"verif/engine/ev"
	rm "verif/engine/refmodel"
	"verif/engine/valenum"
)

func init() {
	checks["C17"] = runC17
	checks["C18"] = runC18
	caseChecks["C17"] = c17Case
	caseChecks["C18"] = c18Case
	c18Prim = c18PrimImpl
}

// ---- C18 ----

func c18PrimImpl(p *prim, v *rm.Value) *ev.Violation {
	for _, le := range []bool{false, true} {
		ref, _, rerr := rm.EncodeField(&p.field, v, le)
		out, err, pan := callWrite(p, v, le)
		mk := func(kind, detail string) *ev.Violation {
			return &ev.Violation{Kind: kind, Subject: fmt.Sprintf("%s le=%v", p.name, le), Detail: detail, Replay: primReplay(p, v, le)}
		}
		if pan != nil {
			return mk("write-panic", fmt.Sprint(pan))
		}
		if errors.Is(rerr, rm.ErrOverflow) {
			if err == nil {
				return mk("overflow-accepted", fmt.Sprintf("value %s does not fit its prefix but the writer reported success; it wrote %s", shape(v), hx(out)))
			}
			continue
		}
		if err != nil {
			return mk("fits-but-refused", fmt.Sprintf("value %s fits its prefix but the writer returned %v", shape(v), err))
		}
		if !bytes.Equal(out, ref) {
			return mk("write-bytes", fmt.Sprintf("value %s: wrote %s want %s", shape(v), hx(out), hx(ref)))
		}
		got, cons, rerr2, pan2 := callRead(p, out, le)
		want, _, _ := rm.DecodeField(&p.field, ref, le)
		if pan2 != nil || rerr2 != nil || cons != len(out) || !rm.Equal(got, want) {
			return mk("no-roundtrip-at-limit", fmt.Sprintf("value %s: read err=%v panic=%v consumed %d/%d", shape(v), rerr2, pan2, cons, len(out)))
		}
	}
	return nil
}

func shape(v *rm.Value) string {
	switch v.K {
	case rm.VText:
		return fmt.Sprintf("text of %d bytes", len(v.Text))
	case rm.VList:
		if len(v.Elems) == 1 && v.Elems[0].K == rm.VText {
			return fmt.Sprintf("list of 1 text of %d bytes", len(v.Elems[0].Text))
		}
		return fmt.Sprintf("list of %d elements", len(v.Elems))
	}
	return v.String()
}

func lengthsFor(kind string) []int {
	switch kind {
	case "u8":
		out := make([]int, 0, 601)
		for i := 0; i <= 600; i++ {
			out = append(out, i)
		}
		return out
	case "u16":
		return []int{0, 1, 255, 256, 65534, 65535, 65536, 65537, 131071, 131072}
	}
	return nil
}

func text(n int) *rm.Value {
	b := make([]byte, n)
	for i := range b {
		b[i] = byte('a' + i%26)
	}
	return rm.Text(b)
}

// c18Values: for a primitive, the values at and around every prefix limit it has.
func c18Values(p *prim) []*rm.Value {
	var out []*rm.Value
	f := &p.field
	switch f.Kind {
	case "lentext":
		for _, n := range lengthsFor(f.Prefix) {
			out = append(out, text(n))
		}
		out = append(out, multibyteTexts(f.Prefix)...)
	case "list":
		for _, n := range lengthsFor(f.Count) {
			l := &rm.Value{K: rm.VList, Elems: make([]*rm.Value, n)}
			for j := range l.Elems {
				switch f.Elem.Kind {
				case "fixtext":
					l.Elems[j] = rm.TextS("ab")
				case "lentext":
					l.Elems[j] = rm.TextS("")
				default:
					l.Elems[j] = rm.Scalar(uint64(j) & rm.MaxOf("u"+f.Elem.Kind[1:]))
				}
			}
			out = append(out, l)
		}
		if f.Elem.Kind == "lentext" {
			for _, n := range lengthsFor(f.Elem.Prefix) {
				out = append(out, rm.List(text(n)))
				out = append(out, rm.List(rm.TextS("x"), text(n)))
			}
			for _, m := range multibyteTexts(f.Elem.Prefix) {
				out = append(out, rm.List(m))
			}
		}
	}
	return out
}

// c18Case (message level): a value some part of which does not fit its prefix must be refused; otherwise encode succeeds.
func c18Case(t *rm.Type, v *rm.Value) *ev.Violation {
	_, rerr := rm.EncodeBytes(v)
	out, _, err, pan := realEncode(v)
	if pan != nil {
		return vio("encode-panic", t, "", fmt.Sprint(pan), v)
	}
	if errors.Is(rerr, rm.ErrOverflow) {
		if err == nil {
			return vio("overflow-accepted", t, overflowField(v), fmt.Sprintf("a field exceeds its length prefix but Encode reported success (%d bytes written)", len(out)), v)
		}
		return nil
	}
	if rerr == nil && err != nil {
		return vio("fits-but-refused", t, "", err.Error(), v)
	}
	return nil
}

// overflowField names the first field of v that does not fit its prefix.
func overflowField(v *rm.Value) string {
	t := v.Type
	for i := range t.Fields {
		f := &t.Fields[i]
		fv := v.Fields[i]
		switch f.Kind {
		case "lentext":
			if uint64(len(fv.Text)) > rm.MaxOf(f.Prefix) {
				return "." + f.Name
			}
		case "list":
			if uint64(len(fv.Elems)) > rm.MaxOf(f.Count) {
				return "." + f.Name
			}
			for _, e := range fv.Elems {
				if f.Elem.Kind == "lentext" && uint64(len(e.Text)) > rm.MaxOf(f.Elem.Prefix) {
					return "." + f.Name + "[]"
				}
				if f.Elem.Kind == "struct" {
					if s := overflowField(e); s != "" {
						return "." + f.Name + "[]" + s
					}
				}
			}
		case "struct", "dyn":
			if !fv.Nil {
				if s := overflowField(fv); s != "" {
					return "." + f.Name + s
				}
			}
		}
	}
	return ""
}

func runC18(r *ev.Run, thorough bool) {
	r.Rule = "primitive level: every prefixed writer (text, scalar lists, fixed-text lists, text lists incl. per-element length, object lists; BE and LE) x prefix types {u8: ALL lengths 0..600; u16: {0,1,255,256,65534,65535,65536,65537,131071,131072}}; message level: every type x V1 with over-long members (65,536 / 65,537 elements or bytes behind 16-bit prefixes); oracle: len > max => error, len <= max => success, reference bytes and read-back; distinct = (primitive,shape) / (type,value)"
	r.Assume("u32/u64 prefixes need >= 4 GiB values and are not attempted")
	l := ev.NewLocal()
	np := 0
	for i := range prims {
		p := &prims[i]
		pk := p.field.Prefix
		if p.field.Kind == "list" {
			pk = p.field.Count
		}
		if pk != "u8" && pk != "u16" {
			if !(p.field.Kind == "list" && p.field.Elem.Kind == "lentext" && (p.field.Elem.Prefix == "u8" || p.field.Elem.Prefix == "u16")) {
				continue
			}
		}
		np++
		for _, v := range c18Values(p) {
			key := ev.H(p.name + shape(v))
			l.Eval(key, true)
			l.States[key] = struct{}{}
			l.Transitions += 4
			l.Traces++
			if viol := c18PrimImpl(p, v); viol != nil {
				r.Violate(viol)
			}
		}
	}
	r.Merge(l)
	r.Set("primitive_instantiations_with_8_or_16_bit_prefix", np)
	parTypes(r, bind.Types, func(t *rm.Type, l *ev.Local) {
		valenum.Enum(t, valenum.Opts{K: 1, Over: true, Big: true}, func(c *valenum.Case) bool {
			key := ev.H(t.QName() + c.V.String())
			l.Eval(key, c.NDev > 0)
			l.States[key] = struct{}{}
			l.Transitions++
			l.Traces++
			if viol := c18Case(t, c.V); viol != nil {
				viol.Detail = "base " + c.Base + " dev {" + c.Desc + "}: " + viol.Detail
				r.Violate(viol)
				return !r.TooMany()
			}
			return true
		})
	})
	r.Sample("String[uint8] text of 256 bytes: must be refused; text of 255 bytes: must round-trip")
	r.Sample("sse.ExecRptInfo .SetId = 65,536 elements behind a 16-bit count: Encode must return an error")
}

// ---- C17 ----

func c17Case(t *rm.Type, v *rm.Value) *ev.Violation {
	_, _, _, pan := realEncode(v)
	if pan != nil {
		return vio("encode-panic", t, nilPath(v), fmt.Sprintf("Encode panicked: %v", pan), v)
	}
	return nil
}

// nilPath names the first nil nested pointer / body of v (for the violation subject).
func nilPath(v *rm.Value) string {
	t := v.Type
	for i := range t.Fields {
		f := &t.Fields[i]
		if f.Kind == "struct" || f.Kind == "dyn" {
			if v.Fields[i].Nil {
				return "nil ." + f.Name
			}
			if s := nilPath(v.Fields[i]); s != "" {
				return s
			}
		}
	}
	return ""
}

func encodeNoPanic(msg any) (pan any) {
	defer func() { pan = recover() }()
	buf := &bytes.Buffer{}
	_ = bind.Encode(msg, buf)
	return nil
}

func runC17(r *ev.Run, thorough bool) {
	r.Rule = "per type: the Go zero value, the result of the library's constructor New<T>(), every value of V1 over the unrestricted alphabets (over-long text, 65,536-element lists, any numbers, nil nested pointers, nil body/extension with every registered key), and nil body/extension with every member of the unregistered-key alphabet; V2 in thorough; oracle: Encode returns (bytes or error), never panics; excluded as the property says: nil elements inside lists, typed-nil pointers in interface fields; distinct = (type,value)"
	parTypes(r, bind.Types, func(t *rm.Type, l *ev.Local) {
		// zero value and constructor result
		for name, msg := range map[string]any{"zero value": bind.New(t), "constructor": bind.Ctor(t)} {
			if msg == nil {
				continue
			}
			l.Eval(ev.H(t.QName()+name), true)
			l.Transitions++
			l.Traces++
			if pan := encodeNoPanic(msg); pan != nil {
				v, _ := bind.FromReal(t, msg)
				viol := vio("encode-panic", t, nilPath(v), fmt.Sprintf("Encode of the %s panicked: %v", name, pan), v)
				r.Violate(viol)
			}
		}
		k := 1
		if thorough {
			k = 2
		}
		valenum.Enum(t, valenum.Opts{K: k, Over: true, Big: true, NilParts: true}, func(c *valenum.Case) bool {
			key := ev.H(t.QName() + c.V.String())
			l.Eval(key, true)
			l.States[key] = struct{}{}
			l.Transitions++
			l.Traces++
			if viol := c17Case(t, c.V); viol != nil {
				viol.Detail = "base " + c.Base + " dev {" + c.Desc + "}: " + viol.Detail
				r.Violate(viol)
				return !r.TooMany()
			}
			return true
		})
		// nil body / extension with unregistered keys
		if di := t.DynField(); di >= 0 {
			f := &t.Fields[di]
			ki := t.FieldIndex(f.Key)
			kf := &t.Fields[ki]
			w := kf.Width
			if w == 0 {
				w = rm.ScalarWidth(kf.Kind)
			}
			for _, kb := range unregisteredKeys(t, w) {
				v := valenum.NilDyn(valenum.Distinct(t))
				if kf.Kind == "fixtext" {
					v.Fields[ki] = rm.Text(kb)
				} else {
					var x uint64
					for _, b := range kb {
						x = x<<8 | uint64(b)
					}
					v.Fields[ki] = rm.Scalar(x)
				}
				key := ev.H(t.QName() + v.String())
				l.Eval(key, true)
				l.States[key] = struct{}{}
				l.Transitions++
				l.Traces++
				if viol := c17Case(t, v); viol != nil {
					viol.Detail = "nil body with unregistered key: " + viol.Detail
					r.Violate(viol)
				}
			}
		}
	})
	r.Sample("sample.NestedPacket constructor result (nil SubPacket, nil InerPacket): Encode must not panic")
	r.Sample("bjse.BjseBinary nil body, MsgType 0xFFFFFFFF: Encode returns an error")
	r.Set("bound", map[string]any{"k_deviations": k12(thorough)})
}

// multibyteTexts: texts of 3-byte runes whose BYTE length is just above / at / below the prefix limit while
// their CHARACTER count is far below it (a length check in characters instead of bytes lets them through).
func multibyteTexts(prefix string) []*rm.Value {
	var out []*rm.Value
	mk := func(runes int, tail string) *rm.Value {
		b := make([]byte, 0, runes*3+len(tail))
		for i := 0; i < runes; i++ {
			b = append(b, 0xE6, 0x8B, 0x92) // U+62D2
		}
		return rm.Text(append(b, tail...))
	}
	switch prefix {
	case "u8":
		out = append(out, mk(85, ""), mk(85, "a"), mk(86, ""), mk(100, ""), mk(200, ""))
	case "u16":
		out = append(out, mk(21845, ""), mk(21845, "a"), mk(21846, ""), mk(30000, ""))
	}
	return out
}
