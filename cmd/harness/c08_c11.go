package main

import (
	"bytes"
	"fmt"
	"strings"
	"sync/atomic"

	"verif/engine/bind"
	"verif/engine/ev"
	rm "verif/engine/refmodel"
	"verif/engine/valenum"
)

func init() {
	checks["C08"] = runC08
	checks["C11"] = runC11
	wireChecks["C08"] = c08Wire
	wireChecks["C11"] = func(t *rm.Type, w []byte) *ev.Violation { return c11Cut(t, w, len(w)) }
}

// c08Wire: if the library accepts w, Encode(Decode(w)) == consumed prefix of w, modulo computed fields holding correct values.
func c08Wire(t *rm.Type, w []byte) *ev.Violation {
	_, _, _, hostile := rm.DecodeRefX(t, w)
	if hostile {
		return nil
	}
	if v := c08WireX(t, w, false); v != nil {
		return v
	}
	// the same again, but between Decode and Encode the receive buffer is recycled (its memory overwritten, the
	// buffer reset and refilled): the decoded message must still re-encode to the bytes that were consumed
	if v := c08WireX(t, w, true); v != nil {
		v.Detail = "receive buffer overwritten and reused between Decode and Encode: " + v.Detail
		return v
	}
	return nil
}

func c08WireX(t *rm.Type, w []byte, recycle bool) *ev.Violation {
	msg := bind.New(t)
	src := append([]byte{}, w...)
	buf := bytes.NewBuffer(src)
	var derr error
	var pan any
	func() {
		defer func() { pan = recover() }()
		derr = bind.Decode(msg, buf)
	}()
	if pan != nil {
		return vioWire("decode-panic", t, "", fmt.Sprint(pan), w)
	}
	if derr != nil {
		return nil // not accepted
	}
	cons := len(w) - buf.Len()
	if recycle {
		for i := range src {
			src[i] = 0xEE
		}
		buf.Reset()
		buf.Write(src)
	}
	out := &bytes.Buffer{}
	var eerr error
	func() {
		defer func() { pan = recover() }()
		eerr = bind.Encode(msg, out)
	}()
	if pan != nil {
		return vioWire("reencode-panic", t, "", fmt.Sprint(pan), w)
	}
	if eerr != nil {
		return vioWire("reencode-error", t, "", eerr.Error()+" on accepted wire "+hx(w), w)
	}
	got := out.Bytes()
	if bytes.Equal(got, w[:cons]) {
		return nil
	}
	if len(got) != cons {
		return vioWire("reencode-length", t, "", fmt.Sprintf("decoder consumed %d bytes of %s, re-encoding gives %d bytes %s", cons, hx(w), len(got), hx(got)), w)
	}
	// differences are permitted only inside computed fields, which must then hold their correct values
	dv, err := bind.FromReal(t, msg)
	if err != nil {
		panic(err)
	}
	ref, segs, _, rerr := rm.EncodeRef(dv)
	i := 0
	for i < len(got) && got[i] == w[i] {
		i++
	}
	if rerr == nil && len(ref) == len(got) {
		for _, s := range segs {
			if (s.Role == "length" || s.Role == "checksum") && i >= s.Off && i < s.Off+s.Len {
				// inside a computed segment: all differences must be inside computed segments and got must be correct there
				mask := make([]bool, len(got))
				for _, c := range segs {
					if c.Role == "length" || c.Role == "checksum" {
						for j := c.Off; j < c.Off+c.Len; j++ {
							mask[j] = true
						}
					}
				}
				for j := range got {
					if got[j] != w[j] && !mask[j] {
						return vioWire("reencode-differs", t, "", fmt.Sprintf("byte %d outside computed fields: wire %s re-encoded %s", j, hx(w[:cons]), hx(got)), w)
					}
					if mask[j] && got[j] != ref[j] {
						return vioWire("reencode-computed-wrong", t, s.Path, fmt.Sprintf("computed field %s not correct after re-encode: %s want %s", s.Path, hx(got), hx(ref)), w)
					}
				}
				return nil
			}
		}
	}
	where := ""
	for _, s := range segs {
		if i >= s.Off && i < s.Off+s.Len {
			where = pathOf(s.Path+":") + " " + s.Role
		}
	}
	return vioWire("reencode-differs", t, where, fmt.Sprintf("first difference at byte %d: accepted wire %s re-encodes to %s", i, hx(w[:cons]), hx(got)), w)
}

func runC08(r *ev.Run, thorough bool) {
	r.Rule = "per type: reference wires of V1 incl. non-canonical forms (over-long text cut, pad bytes everywhere, all-pad fields, stale computed fields) + every 1-byte substitution / insertion from {00,01,20,30,7F,80,FF} and every 1-byte deletion" + map[bool]string{true: " on every seed + every 2-byte substitution on the two base wires", false: " on the two base wires"}[thorough] + "; plus every strict prefix of the three base wires (Z, D, L); for each wire the library accepts: Encode(Decode(w)) == consumed bytes (also when the receive buffer is overwritten and reused between the two calls), differences allowed only inside self-computed fields which must then be correct; distinct = (type,wire); non-trivial = accepted by the decoder"
	r.Assume("wires whose count/length prefix exceeds the input are explored by C09/C10 instead (resource-limited workers)")
	parTypes(r, bind.Types, func(t *rm.Type, l *ev.Local) {
		a, rj := int64(0), int64(0)
		small := encLen(valenum.Distinct(t)) <= 200
		extra := int64(0)
		wireSpace(t, wireOpts{Dev: 1, Indel: true, IndelMaxLen: 200, DevBaseOnly: !thorough, Dev2Base: thorough && small}, func(w []byte, desc string) bool {
			key := ev.H(t.QName() + string(w))
			pairwise := strings.Contains(desc, " bytes ") // 2-byte substitutions: distinct by construction, counted but not stored (memory)
			if !pairwise {
				l.States[key] = struct{}{}
			}
			l.Transitions += 2
			l.Traces++
			viol := c08Wire(t, w)
			if viol == nil {
				// the same wire followed by 512 further bytes: the decoder must consume the same message and re-encode it
				viol = c08Wire(t, append(append([]byte{}, w...), trailing512...))
			}
			// count acceptance (cheap second decode avoided: c08Wire returns nil for both; use ref acceptance)
			_, _, rerr := rm.DecodeRef(t, w)
			if rerr == nil {
				a++
			} else {
				rj++
			}
			if pairwise {
				l.Evals++
				if rerr == nil {
					extra++
				}
			} else {
				l.Eval(key, rerr == nil)
			}
			if viol != nil {
				viol.Detail = desc + ": " + viol.Detail
				r.Violate(viol)
				return !r.TooMany()
			}
			return true
		})
		// every strict prefix of the base wires: a decoder that accepts a truncated message must still re-encode to
		// exactly the bytes it consumed (it cannot, so acceptance itself shows up here as well as in C11)
		for _, base := range []*rm.Value{rm.Zero(t), valenum.Distinct(t), valenum.Long(t)} {
			w, err := rm.EncodeBytes(base)
			if err != nil {
				continue
			}
			for cut := 0; cut < len(w); cut++ {
				key := ev.H(t.QName() + "cut" + string(w[:cut]))
				l.Eval(key, false)
				l.States[key] = struct{}{}
				l.Transitions += 2
				l.Traces++
				if viol := c08Wire(t, w[:cut]); viol != nil {
					viol.Detail = fmt.Sprintf("first %d of %d bytes of a valid encoding: ", cut, len(w)) + viol.Detail
					r.Violate(viol)
					break
				}
			}
		}
		r.SetDistinctAdd(extra)
		r.Add("accepted_by_reference", a)
		r.Add("rejected_by_reference", rj)
	})
	r.Sample("szse.Logon seed D byte 3:=20 (pad byte inside SenderCompID) -> decode, re-encode, identical 92 bytes")
	r.Set("bound", map[string]any{"wire_deviations": map[bool]string{false: "1 on base seeds", true: "1 on all seeds, 2 on base seeds of types <=200 bytes"}[thorough]})
}

// c11Cut: decoding w[:k] (a strict prefix of a valid encoding) must fail.
func c11Cut(t *rm.Type, w []byte, k int) *ev.Violation {
	msg := bind.New(t)
	buf := bytes.NewBuffer(append([]byte{}, w[:k]...))
	var err error
	var pan any
	func() {
		defer func() { pan = recover() }()
		err = bind.Decode(msg, buf)
	}()
	if pan != nil {
		return vioWire("decode-panic", t, "", fmt.Sprint(pan), w[:k])
	}
	if err == nil {
		// which field was being read at the cut?
		return vioWire("truncation-accepted", t, cutField(t, w, k), fmt.Sprintf("decoding the first %d of %d bytes of a valid encoding reported success: %s", k, len(w), hx(w[:k])), w[:k])
	}
	return nil
}

func cutField(t *rm.Type, w []byte, k int) string {
	v, _, err := rm.DecodeRef(t, w)
	if err != nil {
		return ""
	}
	_, segs, _, _ := rm.EncodeRef(v)
	for _, s := range segs {
		if k >= s.Off && k < s.Off+s.Len {
			return pathOf(s.Path+":") + " " + s.Role
		}
	}
	return ""
}

func runC11(r *ev.Run, thorough bool) {
	r.Rule = "per type: every canonical value of V1 (all list lengths 0..3 and 255..257, every registered key, empty and full texts; V2 of structural positions in thorough) x EVERY cut position 0..len-1; for encodings of 60,000 bytes and more (texts/lists of 65,535..70,000 elements) cuts at every multiple of 4096 from either end +-1 and the first/last 64 positions: plus every value of the complete size sweeps (every prefixed-text length / list length up to the sweep bound) and of the Big alphabets cut at every field boundary +-1, the last 16 positions and every multiple of 64 +-1: decoding the strict prefix must return an error; distinct = (type, prefix bytes); zero-length encodings have no strict prefix and are counted separately"
	parTypes(r, bind.Types, func(t *rm.Type, l *ev.Local) {
		seen := map[uint64]struct{}{}
		k := 1
		if thorough {
			k = 2
		}
		valenum.Enum(t, valenum.Opts{K: k, Canonical: true, Big: false}, func(c *valenum.Case) bool {
			if c.NDev == 2 && !structuralDesc(c.Desc) {
				return true
			}
			w, err := rm.EncodeBytes(c.V)
			if err != nil {
				return true
			}
			h := ev.H(string(w))
			if _, ok := seen[h]; ok {
				return true
			}
			seen[h] = struct{}{}
			if len(w) == 0 {
				r.Add("zero_length_encodings", 1)
				return true
			}
			step := 1
			if len(w) > 4096 {
				step = 1 // still every cut; large lists are only in V1
			}
			for cut := 0; cut < len(w); cut += step {
				key := ev.H(t.QName() + string(w[:cut]))
				l.Eval(key, true)
				l.States[key] = struct{}{}
				l.Transitions++
				l.Traces++
				if viol := c11Cut(t, w, cut); viol != nil {
					viol.Detail = "value base " + c.Base + " {" + c.Desc + "}: " + viol.Detail
					r.Violate(viol)
					return !r.TooMany()
				}
			}
			return true
		})
	})
	// long encodings (texts and lists of tens of thousands of bytes): cuts at every multiple of 4096 counted from
	// either end, +-1, plus the first and last 64 positions — readers that work page by page or block by block
	parTypes(r, bind.Types, func(t *rm.Type, l *ev.Local) {
		seen := map[uint64]struct{}{}
		valenum.Enum(t, valenum.Opts{K: 1, Canonical: true, Big: true}, func(c *valenum.Case) bool {
			w, err := rm.EncodeBytes(c.V)
			if err != nil || len(w) < 60000 {
				return true
			}
			if !thorough && !containsAny(c.Desc, "=len ") {
				return true // quick: only the long TEXTS (one read of many bytes); thorough: long lists too
			}
			h := ev.H(string(w))
			if _, ok := seen[h]; ok {
				return true
			}
			seen[h] = struct{}{}
			cuts := map[int]struct{}{}
			for i := 0; i < 16 && i < len(w); i++ {
				cuts[i] = struct{}{}
				cuts[len(w)-1-i] = struct{}{}
			}
			for k := 4096; k < len(w); k += 4096 {
				for _, d := range []int{-1, 0, 1} {
					if x := k + d; x > 0 && x < len(w) {
						cuts[x] = struct{}{}
					}
					if x := len(w) - k + d; x > 0 && x < len(w) {
						cuts[x] = struct{}{}
					}
				}
			}
			// and relative to the start of every long text / list body (the reader's own page or block grid)
			if _, segs, _, e2 := rm.EncodeRef(c.V); e2 == nil {
				for _, sg := range segs {
					if (sg.Role == "vartext" && sg.Len >= 60000) || sg.Role == "count" {
						base := sg.Off
						if sg.Role == "count" {
							base = sg.Off + sg.Len
						}
						for k := 4096; base+k < len(w); k += 4096 {
							for _, d := range []int{-1, 0, 1} {
								if x := base + k + d; x > 0 && x < len(w) {
									cuts[x] = struct{}{}
								}
							}
						}
					}
				}
			}
			for cut := range cuts {
				l.Eval(ev.H(fmt.Sprint(t.QName(), "long", h, cut)), true)
				l.Transitions++
				l.Traces++
				if viol := c11Cut(t, w, cut); viol != nil {
					viol.Detail = "value base " + c.Base + " {" + c.Desc + "}: " + viol.Detail
					r.Violate(viol)
					return !r.TooMany()
				}
			}
			return true
		})
	})
	// mid-range sizes: every value of the complete size sweeps and the Big alphabets (every prefixed-text length, every
	// list length up to the sweep bound, block sizes, text-list length pairs/triples), cut at every field boundary +-1 (all
	// of them for encodings of <= 64 segments, the first and last 8 segments otherwise), in the last 16 positions and at
	// every multiple of 64 +-1: a reader with a size-dependent fast path or block loop swallows a short read there
	st, sl := 1100, 150
	if thorough {
		st, sl = 4200, 600 // the per-type work is serial: larger bounds leave one core busy for tens of minutes
	}
	var nmid int64
	parTypes(r, bind.Types, func(t *rm.Type, l *ev.Local) {
		seen := map[uint64]struct{}{}
		n := int64(0)
		one := func(c *valenum.Case) bool {
			if c.NDev == 0 {
				return true
			}
			w, segs, _, err := rm.EncodeRef(c.V)
			if err != nil || len(w) == 0 || len(w) >= 60000 {
				return true
			}
			h := ev.H(string(w))
			if _, ok := seen[h]; ok {
				return true
			}
			seen[h] = struct{}{}
			cuts := map[int]struct{}{}
			addc := func(x int) {
				if x >= 0 && x < len(w) {
					cuts[x] = struct{}{}
				}
			}
			for i, sg := range segs {
				if len(segs) <= 64 || i < 8 || i >= len(segs)-8 {
					addc(sg.Off - 1)
					addc(sg.Off)
					addc(sg.Off + 1)
				}
			}
			for i := 1; i <= 16; i++ {
				addc(len(w) - i)
			}
			for k := 64; k < len(w); k += 64 {
				addc(k - 1)
				addc(k)
				addc(k + 1)
			}
			for cut := range cuts {
				l.Eval(ev.H(fmt.Sprint(t.QName(), "mid", h, cut)), true)
				l.Transitions++
				l.Traces++
				n++
				if viol := c11Cut(t, w, cut); viol != nil {
					viol.Detail = "value base " + c.Base + " {" + c.Desc + "}: " + viol.Detail
					r.Violate(viol)
					return !r.TooMany()
				}
			}
			return true
		}
		valenum.Enum(t, valenum.Opts{K: 1, Canonical: true, SweepText: st, SweepList: sl}, one)
		valenum.Enum(t, valenum.Opts{K: 1, Canonical: true, Big: true}, one)
		atomic.AddInt64(&nmid, n)
	})
	r.Set("mid_range_size_cuts", map[string]any{"every_prefixed_text_length_0_to": st, "every_list_length_0_to": sl, "cuts": nmid})
	r.Sample("sse.ExecRptInfo D {.Pbu=n=3} cut at 17 of 46 -> error")
	r.Set("bound", map[string]any{"k_deviations": k12(thorough), "cuts": "every position"})
}

func structuralDesc(d string) bool {
	// both deviations must be structural (list length / key / text length) for V2 in C11
	n := 0
	for _, part := range splitDevs(d) {
		if containsAny(part, "=n=", "=nil", "=empty", "=key ", "=len ", "=[") {
			n++
		}
	}
	return n >= 2
}

func splitDevs(d string) []string {
	var out []string
	cur := ""
	for _, c := range d {
		if c == ';' {
			out = append(out, cur)
			cur = ""
		} else {
			cur += string(c)
		}
	}
	return append(out, cur)
}

func containsAny(s string, subs ...string) bool {
	for _, x := range subs {
		if bytes.Contains([]byte(s), []byte(x)) {
			return true
		}
	}
	return false
}

var trailing512 = bytes.Repeat([]byte{0xA7}, 512)
