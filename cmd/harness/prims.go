package main

import (
	"bytes"
	"fmt"
	"math"

	"github.com/xinchentechnote/fin-proto-go/codec"
	"golang.org/x/exp/constraints"

	rm "verif/engine/refmodel"
)

// prim is one instantiation of a codec primitive family, described by a
// schema-like field spec so that the reference interpreter can render it.
type prim struct {
	name  string
	field rm.Field
	write func(buf *bytes.Buffer, v *rm.Value, le bool) error
	read  func(buf *bytes.Buffer, le bool) (*rm.Value, error)
}

var prims []prim

func fromBits[K codec.BasicType](b uint64) K {
	var k K
	switch p := any(&k).(type) {
	case *int8:
		*p = int8(b)
	case *int16:
		*p = int16(b)
	case *int32:
		*p = int32(b)
	case *int64:
		*p = int64(b)
	case *uint8:
		*p = uint8(b)
	case *uint16:
		*p = uint16(b)
	case *uint32:
		*p = uint32(b)
	case *uint64:
		*p = b
	case *float32:
		*p = math.Float32frombits(uint32(b))
	case *float64:
		*p = math.Float64frombits(b)
	default:
		panic("fromBits")
	}
	return k
}

func toBits[K codec.BasicType](k K) uint64 {
	switch p := any(&k).(type) {
	case *int8:
		return uint64(uint8(*p))
	case *int16:
		return uint64(uint16(*p))
	case *int32:
		return uint64(uint32(*p))
	case *int64:
		return uint64(*p)
	case *uint8:
		return uint64(*p)
	case *uint16:
		return uint64(*p)
	case *uint32:
		return uint64(*p)
	case *uint64:
		return *p
	case *float32:
		return uint64(math.Float32bits(*p))
	case *float64:
		return math.Float64bits(*p)
	}
	panic("toBits")
}

var kindNames = map[string]string{"int8": "i8", "int16": "i16", "int32": "i32", "int64": "i64", "uint8": "u8", "uint16": "u16", "uint32": "u32", "uint64": "u64", "float32": "f32", "float64": "f64"}

func scalarPrim[K codec.BasicType](k string) prim {
	return prim{
		name:  "BasicType[" + k + "]",
		field: rm.Field{Kind: kindNames[k]},
		write: func(buf *bytes.Buffer, v *rm.Value, le bool) error {
			if le {
				return codec.WriteBasicTypeLE(buf, fromBits[K](v.Bits))
			}
			return codec.WriteBasicType(buf, fromBits[K](v.Bits))
		},
		read: func(buf *bytes.Buffer, le bool) (*rm.Value, error) {
			var x K
			var err error
			if le {
				x, err = codec.ReadBasicTypeLE[K](buf)
			} else {
				x, err = codec.ReadBasicType[K](buf)
			}
			return rm.Scalar(toBits(x)), err
		},
	}
}

func basicListPrim[T constraints.Unsigned, K codec.BasicType](t, k string) prim {
	return prim{
		name:  "BasicTypeList[" + t + "," + k + "]",
		field: rm.Field{Kind: "list", Count: kindNames[t], Elem: &rm.Field{Kind: kindNames[k]}},
		write: func(buf *bytes.Buffer, v *rm.Value, le bool) error {
			var xs []K
			if !v.Nil {
				xs = make([]K, len(v.Elems))
				for i, e := range v.Elems {
					xs[i] = fromBits[K](e.Bits)
				}
			}
			if le {
				return codec.WriteBasicTypeListLE[T](buf, xs)
			}
			return codec.WriteBasicTypeList[T](buf, xs)
		},
		read: func(buf *bytes.Buffer, le bool) (*rm.Value, error) {
			var xs []K
			var err error
			if le {
				xs, err = codec.ReadBasicTypeListLE[T, K](buf)
			} else {
				xs, err = codec.ReadBasicTypeList[T, K](buf)
			}
			if err != nil {
				return nil, err
			}
			l := &rm.Value{K: rm.VList, Nil: xs == nil, Elems: make([]*rm.Value, len(xs))}
			for i, x := range xs {
				l.Elems[i] = rm.Scalar(toBits(x))
			}
			return l, nil
		},
	}
}

func stringPrim[T constraints.Unsigned](t string) prim {
	return prim{
		name:  "String[" + t + "]",
		field: rm.Field{Kind: "lentext", Prefix: kindNames[t]},
		write: func(buf *bytes.Buffer, v *rm.Value, le bool) error {
			if le {
				return codec.WriteStringLE[T](buf, string(v.Text))
			}
			return codec.WriteString[T](buf, string(v.Text))
		},
		read: func(buf *bytes.Buffer, le bool) (*rm.Value, error) {
			var s string
			var err error
			if le {
				s, err = codec.ReadStringLE[T](buf)
			} else {
				s, err = codec.ReadString[T](buf)
			}
			return rm.Text([]byte(s)), err
		},
	}
}

func textList(v *rm.Value) []string {
	if v.Nil {
		return nil
	}
	xs := make([]string, len(v.Elems))
	for i, e := range v.Elems {
		xs[i] = string(e.Text)
	}
	return xs
}

func fromTextList(xs []string) *rm.Value {
	l := &rm.Value{K: rm.VList, Nil: xs == nil, Elems: make([]*rm.Value, len(xs))}
	for i, x := range xs {
		l.Elems[i] = rm.Text([]byte(x))
	}
	return l
}

// fixedListPrim uses width 3, pad '0', left (a non-default pad so that the WithPadding variants are exercised).
func fixedListPrim[T constraints.Unsigned](t string) prim {
	return prim{
		name:  "FixedStringListWithPadding[" + t + "]",
		field: rm.Field{Kind: "list", Count: kindNames[t], Elem: &rm.Field{Kind: "fixtext", Width: 3, Pad: '0', Left: true}},
		write: func(buf *bytes.Buffer, v *rm.Value, le bool) error {
			if le {
				return codec.WriteFixedStringListWithPaddingLE[T](buf, textList(v), 3, '0', true)
			}
			return codec.WriteFixedStringListWithPadding[T](buf, textList(v), 3, '0', true)
		},
		read: func(buf *bytes.Buffer, le bool) (*rm.Value, error) {
			var xs []string
			var err error
			if le {
				xs, err = codec.ReadFixedStringListTrimPaddingLE[T](buf, 3, '0', true)
			} else {
				xs, err = codec.ReadFixedStringListTrimPadding[T](buf, 3, '0', true)
			}
			if err != nil {
				return nil, err
			}
			return fromTextList(xs), nil
		},
	}
}

func stringListPrim[T constraints.Unsigned, K constraints.Unsigned](t, k string) prim {
	return prim{
		name:  "StringList[" + t + "," + k + "]",
		field: rm.Field{Kind: "list", Count: kindNames[t], Elem: &rm.Field{Kind: "lentext", Prefix: kindNames[k]}},
		write: func(buf *bytes.Buffer, v *rm.Value, le bool) error {
			if le {
				return codec.WriteStringListLE[T, K](buf, textList(v))
			}
			return codec.WriteStringList[T, K](buf, textList(v))
		},
		read: func(buf *bytes.Buffer, le bool) (*rm.Value, error) {
			var xs []string
			var err error
			if le {
				xs, err = codec.ReadStringListLE[T, K](buf)
			} else {
				xs, err = codec.ReadStringList[T, K](buf)
			}
			if err != nil {
				return nil, err
			}
			return fromTextList(xs), nil
		},
	}
}

// obj2 is a two-byte element for the object-list primitives (no integers inside,
// so the only number on the wire is the count prefix).
type obj2 struct{ a, b byte }

func (o *obj2) Encode(buf *bytes.Buffer) error {
	buf.WriteByte(o.a)
	buf.WriteByte(o.b)
	return nil
}

func (o *obj2) Decode(buf *bytes.Buffer) error {
	var err error
	if o.a, err = buf.ReadByte(); err != nil {
		return err
	}
	if o.b, err = buf.ReadByte(); err != nil {
		return err
	}
	return nil
}

func objectListPrim[T constraints.Unsigned](t string) prim {
	return prim{
		name:  "ObjectList[" + t + "]",
		field: rm.Field{Kind: "list", Count: kindNames[t], Elem: &rm.Field{Kind: "fixtext", Width: 2, Pad: 0x7E, Left: false}},
		write: func(buf *bytes.Buffer, v *rm.Value, le bool) error {
			var xs []*obj2
			if !v.Nil {
				xs = make([]*obj2, len(v.Elems))
				for i, e := range v.Elems {
					t := rm.FixText(e.Text, 2, 0x7E, false)
					xs[i] = &obj2{t[0], t[1]}
				}
			}
			if le {
				return codec.WriteObjectListLE[T](buf, xs)
			}
			return codec.WriteObjectList[T](buf, xs)
		},
		read: func(buf *bytes.Buffer, le bool) (*rm.Value, error) {
			var xs []*obj2
			var err error
			nf := func() *obj2 { return &obj2{} }
			if le {
				xs, err = codec.ReadObjectListLE[T](buf, nf)
			} else {
				xs, err = codec.ReadObjectList[T](buf, nf)
			}
			if err != nil {
				return nil, err
			}
			l := &rm.Value{K: rm.VList, Nil: xs == nil, Elems: make([]*rm.Value, len(xs))}
			for i, x := range xs {
				l.Elems[i] = &rm.Value{K: rm.VText, Text: rm.StripText([]byte{x.a, x.b}, 0x7E, false)}
			}
			return l, nil
		},
	}
}

func primReplay(p *prim, v *rm.Value, le bool) map[string]any {
	return map[string]any{"op": "prim", "prim": p.name, "le": le, "value": rm.ToJSON(v)}
}

func findPrim(name string) *prim {
	for i := range prims {
		if prims[i].name == name {
			return &prims[i]
		}
	}
	return nil
}

func callWrite(p *prim, v *rm.Value, le bool) (out []byte, err error, pan any) {
	buf := &bytes.Buffer{}
	func() {
		defer func() {
			if x := recover(); x != nil {
				pan = x
			}
		}()
		err = p.write(buf, v, le)
	}()
	return buf.Bytes(), err, pan
}

func callRead(p *prim, w []byte, le bool) (v *rm.Value, consumed int, err error, pan any) {
	buf := bytes.NewBuffer(append([]byte{}, w...))
	func() {
		defer func() {
			if x := recover(); x != nil {
				pan = x
			}
		}()
		v, err = p.read(buf, le)
	}()
	return v, len(w) - buf.Len(), err, pan
}

var _ = fmt.Sprint

// ---- element types that are NAMED types over the basic kinds (the ~int64 style constraint admits them;
// code that dispatches on the exact built-in type treats them differently) ----

type namedI64 int64
type namedU16 uint16

func namedI64ListPrim[T constraints.Unsigned](t string) prim {
	return prim{
		name:  "BasicTypeList[" + t + ",named int64]",
		field: rm.Field{Kind: "list", Count: kindNames[t], Elem: &rm.Field{Kind: "i64"}},
		write: func(buf *bytes.Buffer, v *rm.Value, le bool) error {
			var xs []namedI64
			if !v.Nil {
				xs = make([]namedI64, len(v.Elems))
				for i, e := range v.Elems {
					xs[i] = namedI64(int64(e.Bits))
				}
			}
			if le {
				return codec.WriteBasicTypeListLE[T](buf, xs)
			}
			return codec.WriteBasicTypeList[T](buf, xs)
		},
		read: func(buf *bytes.Buffer, le bool) (*rm.Value, error) {
			var xs []namedI64
			var err error
			if le {
				xs, err = codec.ReadBasicTypeListLE[T, namedI64](buf)
			} else {
				xs, err = codec.ReadBasicTypeList[T, namedI64](buf)
			}
			if err != nil {
				return nil, err
			}
			l := &rm.Value{K: rm.VList, Nil: xs == nil, Elems: make([]*rm.Value, len(xs))}
			for i, x := range xs {
				l.Elems[i] = rm.Scalar(uint64(int64(x)))
			}
			return l, nil
		},
	}
}

func namedU16ListPrim[T constraints.Unsigned](t string) prim {
	return prim{
		name:  "BasicTypeList[" + t + ",named uint16]",
		field: rm.Field{Kind: "list", Count: kindNames[t], Elem: &rm.Field{Kind: "u16"}},
		write: func(buf *bytes.Buffer, v *rm.Value, le bool) error {
			var xs []namedU16
			if !v.Nil {
				xs = make([]namedU16, len(v.Elems))
				for i, e := range v.Elems {
					xs[i] = namedU16(uint16(e.Bits))
				}
			}
			if le {
				return codec.WriteBasicTypeListLE[T](buf, xs)
			}
			return codec.WriteBasicTypeList[T](buf, xs)
		},
		read: func(buf *bytes.Buffer, le bool) (*rm.Value, error) {
			var xs []namedU16
			var err error
			if le {
				xs, err = codec.ReadBasicTypeListLE[T, namedU16](buf)
			} else {
				xs, err = codec.ReadBasicTypeList[T, namedU16](buf)
			}
			if err != nil {
				return nil, err
			}
			l := &rm.Value{K: rm.VList, Nil: xs == nil, Elems: make([]*rm.Value, len(xs))}
			for i, x := range xs {
				l.Elems[i] = rm.Scalar(uint64(x))
			}
			return l, nil
		},
	}
}

func init() {
	prims = append(prims, namedI64ListPrim[uint16]("uint16"), namedI64ListPrim[uint32]("uint32"), namedU16ListPrim[uint16]("uint16"), namedU16ListPrim[uint32]("uint32"))
}
