package main

import (
	"bytes"
	"encoding/hex"
	"fmt"
	"reflect"
	"strings"
	"sync/atomic"

	"verif/engine/bind"
	"verif/engine/ev"
	rm "verif/engine/refmodel"
)

// ---- operation-history explorer over real buffers and messages (DESIGN 3.4) ----

const (
	opENC      = iota // arg: message index (encoding the same object again = REENC)
	opDEC             // decode one message of the scenario type into a fresh receiver
	opSKIP            // arg: bytes to consume
	opJUNK            // arg: index into junks
	opRESET           // buf.Reset()
	opSCRIBBLE        // overwrite the unread bytes (and the owned backing array) in place
	opMUT             // arg: message index; mutate the message object in place
	opDECINTO         // arg: receiver index; decode into an existing receiver (C15)
)

type hOp struct{ Kind, Arg int }

func (o hOp) String() string {
	switch o.Kind {
	case opENC:
		return fmt.Sprintf("ENC(m%d)", o.Arg)
	case opDEC:
		return "DEC"
	case opSKIP:
		return fmt.Sprintf("SKIP(%d)", o.Arg)
	case opJUNK:
		return fmt.Sprintf("JUNK(%d)", o.Arg)
	case opRESET:
		return "RESET"
	case opSCRIBBLE:
		return "SCRIBBLE"
	case opMUT:
		return fmt.Sprintf("MUT(m%d)", o.Arg)
	case opDECINTO:
		return fmt.Sprintf("DECINTO(r%d)", o.Arg)
	}
	return "?"
}

// vacuity indicators for the history explorers: decode operations executed / of which succeeded (DESIGN 12)
var histDecodes, histDecodesOK int64

var junks = [][]byte{{0xAA}, {0xAA, 0xAA, 0xAA, 0xAA, 0xAA}, {0x00}, {0xFF}, bytes.Repeat([]byte{0x55}, 5000)}

// Buffer capacity classes: -1 zero value; -2 NewBuffer over an owned non-empty slice; >=0 NewBuffer(make([]byte,0,c)).
const (
	capZero  = -1
	capOwned = -2
)

type hScenario struct {
	Name  string
	T     *rm.Type
	Msgs  []*rm.Value
	Ops   []hOp
	Depth int
	Caps  []int
	Junks [][]byte // nil = default junks
	// SkipObjectCheck: do not compare the message objects with the model after each op (C06 judges only the bytes:
	// "the same message object encoded again yields the same bytes", whatever the first encode did to the object)
	SkipObjectCheck bool
}

func (sc *hScenario) junk(i int) []byte {
	if sc.Junks != nil {
		return sc.Junks[i]
	}
	return junks[i]
}

type hFinding struct {
	Kind   string // buffer-after-enc, object-after-enc, decode-accept, decode-consumed, decode-value, receiver-changed, bytes-changed, panic, enc-error
	Role2  string // "checksum" when, independently of where the bytes first differ, the appended trailer does not cover the appended bytes
	Role   string // for buffer-after-enc: length | checksum | prior | other ; for object-after-enc: field role
	Where  string
	Detail string
}

type hState struct {
	buf    *bytes.Buffer
	owned  []byte // backing array we own (capOwned)
	unread []byte // model
	msgs   []any
	mvals  []*rm.Value
	recvs  []any
	rvals  []*rm.Value
}

func newBuf(c int) (*bytes.Buffer, []byte, []byte) {
	switch {
	case c == capZero:
		return &bytes.Buffer{}, nil, nil
	case c == capOwned:
		own := make([]byte, 3, 64)
		copy(own, []byte{0xC1, 0xC2, 0xC3})
		return bytes.NewBuffer(own), own[:cap(own)], []byte{0xC1, 0xC2, 0xC3}
	case c <= -100:
		// "slide" class: a 512-byte buffer of which all but 2 bytes have been consumed and whose spare tail is only
		// r = -c-100 bytes: the next writes first fit, then make bytes.Buffer slide the unread bytes down inside the
		// SAME backing array (capacity unchanged) — offsets and slices taken before that point go stale
		r := -c - 100
		b := bytes.NewBuffer(make([]byte, 0, 512))
		b.Write(bytes.Repeat([]byte{0xD7}, 512-r))
		b.Next(512 - r - 2)
		return b, nil, []byte{0xD7, 0xD7}
	default:
		return bytes.NewBuffer(make([]byte, 0, c)), nil, nil
	}
}

// slideClasses: spare tails of 5, 17 and 33 bytes (inside / just after the headers of the frame types).
var slideClasses = []int{-105, -117, -133}

func fieldRole(t *rm.Type, path string) string {
	// path like ".MsgBodyLen" (top-level field)
	name := strings.TrimPrefix(path, ".")
	if i := strings.IndexAny(name, ".[:"); i >= 0 {
		name = name[:i]
	}
	if fi := t.FieldIndex(name); fi >= 0 {
		switch t.Fields[fi].Kind {
		case "length", "checksum":
			return t.Fields[fi].Kind
		}
	}
	return "other"
}

// runHistory executes one operation sequence on fresh real objects next to the
// pure model and returns the first invariant failure (nil if none).  steps
// reports how many operations were executed (a disabled op ends the sequence).
func runHistory(sc *hScenario, capClass int, seq []hOp) (f *hFinding, steps int, modelKey uint64) {
	st := &hState{}
	st.buf, st.owned, st.unread = newBuf(capClass)
	for _, mv := range sc.Msgs {
		st.msgs = append(st.msgs, bind.MustReal(mv))
		st.mvals = append(st.mvals, mv.Clone())
	}
	defer func() {
		if p := recover(); p != nil {
			f = &hFinding{Kind: "panic", Role: "other", Detail: fmt.Sprint(p)}
		}
	}()
	for _, op := range seq {
		if !enabled(st, op) {
			break
		}
		steps++
		if f := step(sc, st, op); f != nil {
			return f, steps, 0
		}
		// global invariants after every operation
		if !bytes.Equal(st.buf.Bytes(), st.unread) {
			return &hFinding{Kind: "buffer-changed", Role: "prior", Where: op.String(), Detail: fmt.Sprintf("after %s the unread buffer is %s, model says %s", op, hx(st.buf.Bytes()), hx(st.unread))}, steps, 0
		}
		for i, m := range st.msgs {
			if sc.SkipObjectCheck {
				break
			}
			got := bind.MustFrom(st.mvals[i].Type, m)
			if d := rm.Diff(st.mvals[i], got, ""); d != "" {
				role := fieldRole(st.mvals[i].Type, d)
				return &hFinding{Kind: "object-after-op", Role: role, Where: pathOf(d), Detail: fmt.Sprintf("after %s message m%d differs from the model at %s", op, i, d)}, steps, 0
			}
		}
		for i, rc := range st.recvs {
			got := bind.MustFrom(sc.T, rc)
			if d := rm.Diff(st.rvals[i], got, ""); d != "" {
				return &hFinding{Kind: "receiver-changed", Role: "other", Where: pathOf(d), Detail: fmt.Sprintf("after %s decoded message r%d changed at %s", op, i, d)}, steps, 0
			}
		}
	}
	k := ev.H(string(st.unread))
	for _, v := range st.mvals {
		k = k*1099511628211 ^ v.Hash()
	}
	for _, v := range st.rvals {
		k = k*1099511628211 ^ v.Hash()
	}
	return nil, steps, k
}

func enabled(st *hState, op hOp) bool {
	switch op.Kind {
	case opSKIP:
		return len(st.unread) >= op.Arg
	case opSCRIBBLE:
		return true
	case opDECINTO:
		return op.Arg < len(st.recvs)
	}
	return true
}

func step(sc *hScenario, st *hState, op hOp) *hFinding {
	switch op.Kind {
	case opENC:
		mv := st.mvals[op.Arg]
		ref, segs, after, rerr := rm.EncodeRef(mv)
		if rerr != nil {
			// a message the schema refuses (a value too long for its prefix, an unregistered key): the library must
			// refuse it too (C18/C12 check that); what it appended before failing is unconstrained, so the model
			// re-synchronises with the real buffer and message object — and everything AFTER the failure is checked as usual
			err := bind.Encode(st.msgs[op.Arg], st.buf)
			if err == nil {
				return &hFinding{Kind: "invalid-message-accepted", Role: "other", Detail: "schema error " + rerr.Error() + " but Encode succeeded"}
			}
			st.unread = append([]byte{}, st.buf.Bytes()...)
			st.mvals[op.Arg] = bind.MustFrom(mv.Type, st.msgs[op.Arg])
			return nil
		}
		before := append([]byte{}, st.unread...)
		err := bind.Encode(st.msgs[op.Arg], st.buf)
		if err != nil {
			return &hFinding{Kind: "enc-error", Role: "other", Detail: err.Error()}
		}
		st.unread = append(st.unread, ref...)
		st.mvals[op.Arg] = after
		got := st.buf.Bytes()
		if !bytes.Equal(got, st.unread) {
			// classify
			if len(got) < len(before) || !bytes.Equal(got[:len(before)], before) {
				return &hFinding{Kind: "buffer-after-enc", Role: "prior", Where: "prior bytes", Detail: fmt.Sprintf("ENC altered bytes already in the buffer: before %s after %s", hx(before), hx(got))}
			}
			app := got[len(before):]
			i := 0
			for i < len(app) && i < len(ref) && app[i] == ref[i] {
				i++
			}
			role, where := "other", ""
			for _, s := range segs {
				if i >= s.Off && i < s.Off+s.Len {
					where = s.Path
					if s.Role == "length" || s.Role == "checksum" {
						role = s.Role
					}
				}
			}
			f := &hFinding{Kind: "buffer-after-enc", Role: role, Where: pathOf(where + ":"), Detail: fmt.Sprintf("%d bytes unread before; appended %s, the same message into an empty buffer gives %s (first difference at +%d %s)", len(before), hx(app), hx(ref), i, where)}
			// alignment-independent reading of C05: whatever was appended IS this frame, and its trailer must be the
			// algorithm over all appended bytes before the trailer (only consulted when the bytes already differ)
			if role == "other" {
				mt := st.mvals[op.Arg].Type
				for _, sg := range segs {
					fi := mt.FieldIndex(strings.TrimPrefix(sg.Path, "."))
					if sg.Role != "checksum" || sg.Off+sg.Len != len(ref) || fi < 0 || mt.Fields[fi].Alg == "" || len(app) < sg.Len {
						continue
					}
					want := rm.Checksum(mt.Fields[fi].Alg, app[:len(app)-sg.Len])
					var have uint64
					tr := app[len(app)-sg.Len:]
					for k := 0; k < sg.Len; k++ {
						sh := uint(8 * k)
						if !sg.Little {
							sh = uint(8 * (sg.Len - 1 - k))
						}
						have |= uint64(tr[k]) << sh
					}
					if have != want&(1<<(8*uint(sg.Len))-1) {
						f.Role2 = "checksum"
						f.Detail += fmt.Sprintf("; the trailer %x is not %s over the %d bytes appended before it (%#x)", tr, mt.Fields[fi].Alg, len(app)-sg.Len, want)
					}
				}
			}
			return f
		}
	case opDEC, opDECINTO:
		want, wcons, werr, hostile := rm.DecodeRefX(sc.T, st.unread)
		if hostile {
			return nil
		}
		var rc any
		if op.Kind == opDEC {
			rc = bind.New(sc.T)
		} else {
			rc = st.recvs[op.Arg]
		}
		before := st.buf.Len()
		err := bind.Decode(rc, st.buf)
		cons := before - st.buf.Len()
		atomic.AddInt64(&histDecodes, 1)
		if err == nil {
			atomic.AddInt64(&histDecodesOK, 1)
		}
		if (err == nil) != (werr == nil) {
			return &hFinding{Kind: "decode-accept", Role: "other", Detail: fmt.Sprintf("model err=%v library err=%v on %s", werr, err, hx(st.unread))}
		}
		if err != nil {
			// a failed decode leaves buffer and receiver unconstrained: re-synchronise the model from the real objects
			st.unread = append([]byte{}, st.buf.Bytes()...)
			if op.Kind == opDECINTO {
				st.rvals[op.Arg] = bind.MustFrom(sc.T, rc)
			}
			return nil
		}
		if cons != wcons {
			return &hFinding{Kind: "decode-consumed", Role: "other", Detail: fmt.Sprintf("consumed %d, the message is %d bytes; unread before: %s", cons, wcons, hx(st.unread))}
		}
		got := bind.MustFrom(sc.T, rc)
		if d := rm.Diff(want, got, ""); d != "" {
			return &hFinding{Kind: "decode-value", Role: "other", Where: pathOf(d), Detail: fmt.Sprintf("decoded value differs from the model at %s (unread before: %s)", d, hx(st.unread))}
		}
		st.unread = st.unread[wcons:]
		if op.Kind == opDEC {
			st.recvs = append(st.recvs, rc)
			st.rvals = append(st.rvals, want)
		} else {
			st.rvals[op.Arg] = want
		}
	case opSKIP:
		st.buf.Next(op.Arg)
		st.unread = st.unread[op.Arg:]
	case opJUNK:
		st.buf.Write(sc.junk(op.Arg))
		st.unread = append(st.unread, sc.junk(op.Arg)...)
	case opRESET:
		st.buf.Reset()
		st.unread = st.unread[:0]
	case opSCRIBBLE:
		b := st.buf.Bytes()
		for i := range b {
			b[i] = 0xEE
		}
		for i := range st.owned {
			st.owned[i] = 0xEE
		}
		// the full backing array of the buffer, including consumed and spare bytes
		full := b[:cap(b)]
		for i := range full {
			full[i] = 0xEE
		}
		for i := range st.unread {
			st.unread[i] = 0xEE
		}
		// the CONSUMED part of the backing array is not reachable through Bytes(): overwrite the whole array through the
		// buffer's own API (Reset keeps the array; writing exactly Cap() bytes fills it from index 0 without growing),
		// then restore the (scribbled) unread bytes.  A decoded value that is a view of consumed bytes changes here.
		n, c := st.buf.Len(), st.buf.Cap()
		st.buf.Reset()
		st.buf.Write(bytes.Repeat([]byte{0xEE}, c))
		st.buf.Reset()
		st.buf.Write(bytes.Repeat([]byte{0xEE}, n))
	case opMUT:
		mutateInPlace(reflect.ValueOf(st.msgs[op.Arg]).Elem())
		st.mvals[op.Arg] = bind.MustFrom(st.mvals[op.Arg].Type, st.msgs[op.Arg])
	}
	return nil
}

// mutateInPlace changes every scalar, text, list element and nested part of a message without replacing slices.
func mutateInPlace(v reflect.Value) {
	switch v.Kind() {
	case reflect.Int8, reflect.Int16, reflect.Int32, reflect.Int64:
		v.SetInt(^v.Int())
	case reflect.Uint8, reflect.Uint16, reflect.Uint32, reflect.Uint64:
		v.SetUint(^v.Uint() & (1<<(8*uint(v.Type().Size())) - 1))
	case reflect.Float32, reflect.Float64:
		v.SetFloat(v.Float() + 1.5)
	case reflect.String:
		v.SetString("mut")
	case reflect.Slice:
		for i := 0; i < v.Len(); i++ {
			mutateInPlace(v.Index(i))
		}
	case reflect.Ptr, reflect.Interface:
		if !v.IsNil() {
			if v.Kind() == reflect.Interface {
				mutateInPlace(v.Elem().Elem())
			} else {
				mutateInPlace(v.Elem())
			}
		}
	case reflect.Struct:
		for i := 0; i < v.NumField(); i++ {
			if v.Field(i).CanSet() {
				mutateInPlace(v.Field(i))
			}
		}
	}
}

// exploreHistories runs every operation sequence of length 1..Depth over the
// scenario's alphabet for every capacity class (stateless DFS: each sequence
// is re-executed from fresh objects).  Sequences that die early (an op not
// enabled) are not extended.
func exploreHistories(sc *hScenario, l *ev.Local, onFinding func(f *hFinding, capClass int, seq []hOp) bool) {
	for _, c := range sc.Caps {
		seq := make([]hOp, 0, sc.Depth)
		var rec func() bool
		rec = func() bool {
			if len(seq) > 0 {
				f, steps, key := runHistory(sc, c, seq)
				l.Evals++
				l.Transitions += int64(steps)
				l.Traces++
				l.Keys[ev.H(fmt.Sprint(sc.Name, c, seq))] = struct{}{}
				if f != nil {
					if !onFinding(f, c, append([]hOp{}, seq...)) {
						return false
					}
					return true // do not extend a failing history
				}
				if steps < len(seq) {
					return true // last op was not enabled: prune
				}
				l.States[key] = struct{}{}
			}
			if len(seq) == sc.Depth {
				return true
			}
			for _, op := range sc.Ops {
				seq = append(seq, op)
				ok := rec()
				seq = seq[:len(seq)-1]
				if !ok {
					return false
				}
			}
			return true
		}
		if !rec() {
			return
		}
	}
}

func histViolation(prop string, sc *hScenario, f *hFinding, capClass int, seq []hOp) *ev.Violation {
	ops := make([]string, len(seq))
	raw := make([]any, len(seq))
	for i, o := range seq {
		ops[i] = o.String()
		raw[i] = []int{o.Kind, o.Arg}
	}
	msgs := make([]any, len(sc.Msgs))
	for i, m := range sc.Msgs {
		msgs[i] = rm.ToJSON(m)
	}
	subj := sc.T.QName() + " " + f.Kind + " " + f.Role
	if f.Where != "" {
		subj += " " + f.Where
	}
	return &ev.Violation{Kind: f.Kind, Subject: subj,
		Detail: fmt.Sprintf("history [%s] buffer class %d: %s", strings.Join(ops, " "), capClass, f.Detail),
		Replay: map[string]any{"op": "history", "type": sc.T.QName(), "cap": capClass, "seq": raw, "ops": ops, "msgs": msgs, "junks": hexList(sc.Junks)}}
}

func init() {
	replayers["history"] = func(prop string, rp map[string]any) *ev.Violation {
		t := bind.TypeByQName(rp["type"].(string))
		sc := &hScenario{Name: "replay", T: t, SkipObjectCheck: prop == "C06"}
		for _, m := range rp["msgs"].([]any) {
			v, err := rm.FromJSON(m, bind.TypeByQName)
			if err != nil {
				panic(err)
			}
			sc.Msgs = append(sc.Msgs, v)
		}
		var seq []hOp
		for _, o := range rp["seq"].([]any) {
			p := o.([]any)
			seq = append(seq, hOp{int(p[0].(float64)), int(p[1].(float64))})
		}
		c := int(rp["cap"].(float64))
		if wn, ok := rp["warm_session"].(float64); ok && wn > 0 {
			// the history was found after a long session: replay the session first (plain sequential calls)
			warmSession(ev.NewRun("replay", "replay"), int(wn))
		}
		if js, ok := rp["junks"].([]any); ok && len(js) > 0 {
			for _, j := range js {
				b, _ := hex.DecodeString(j.(string))
				sc.Junks = append(sc.Junks, b)
			}
		}
		f, _, _ := runHistory(sc, c, seq)
		if f == nil || !histRelevant[prop](f) {
			return nil
		}
		return histViolation(prop, sc, f, c, seq)
	}
}

// histRelevant: which findings belong to which property.
var histRelevant = map[string]func(f *hFinding) bool{
	"C04": func(f *hFinding) bool {
		return (f.Kind == "buffer-after-enc" || f.Kind == "object-after-op") && f.Role == "length"
	},
	"C05": func(f *hFinding) bool {
		return (f.Kind == "buffer-after-enc" || f.Kind == "object-after-op") && (f.Role == "checksum" || f.Role2 == "checksum")
	},
	"C06": func(f *hFinding) bool {
		return f.Kind == "buffer-after-enc" || f.Kind == "buffer-changed" || f.Kind == "enc-error" || f.Kind == "panic"
	},
	"C07": func(f *hFinding) bool {
		return strings.HasPrefix(f.Kind, "decode-") || f.Kind == "buffer-changed" || f.Kind == "panic"
	},
	"C16": func(f *hFinding) bool {
		return f.Kind == "receiver-changed" || f.Kind == "buffer-changed" || f.Kind == "panic"
	},
}

func hexList(bs [][]byte) []string {
	out := []string{}
	for _, b := range bs {
		out = append(out, hex.EncodeToString(b))
	}
	return out
}
