package main

import (
	"bufio"
	"bytes"
	"encoding/binary"
	"encoding/hex"
	"encoding/json"
	"fmt"
	"os"
	"os/exec"
	"path/filepath"
	"runtime"
	"strconv"
	"sync"
	"sync/atomic"
	"syscall"
	"time"

	"verif/engine/bind"
	"verif/engine/ev"
	rm "verif/engine/refmodel"
	"verif/engine/valenum"
)

// ---- wire-string explorer with process isolation (DESIGN 3.3): C09 and C10 ----

func init() {
	checks["C09"] = func(r *ev.Run, th bool) {
		superviseDecode(r, "C09", th)
		// decoders called repeatedly on ONE receiver (valid bytes, sizes along ladder patterns; receivers with spare list
		// capacity): the same no-panic requirement; runs in this process, panics are recovered per call
		c15Ladders(r, "C09")
	}
	checks["C10"] = func(r *ev.Run, th bool) { superviseDecode(r, "C10", th) }
	workers["decode"] = decodeWorker
	wireChecks["C09"] = func(t *rm.Type, w []byte) *ev.Violation { return hostileOne("C09", t, nil, false, w) }
	wireChecks["C10"] = func(t *rm.Type, w []byte) *ev.Violation { return hostileOne("C10", t, nil, false, w) }
	replayers["primwire"] = func(prop string, rp map[string]any) *ev.Violation {
		p := findPrim(rp["prim"].(string))
		w, _ := hex.DecodeString(rp["wire"].(string))
		return hostileOne(prop, nil, p, rp["le"].(bool), w)
	}
}

const caseDeadline = 90 * time.Second

var stopAll atomic.Bool

const (
	allocConst  = 16384 // "a small constant": four pages, so that a refactor using a page-sized scratch area does not trip it
	allocPerB   = 64
	tickConst   = 256
	tickPerB    = 64 // generous on purpose: a linear-time decoder with a bitwise inner loop (9 iterations per byte) still passes
	addrLimit   = 8 << 30
	journalSize = 4096
)

func allocBudget(n int) uint64 { return uint64(allocConst + allocPerB*n) }

// hostileOne executes one decoder on one wire and applies the C09 or C10 oracle.
// Exactly one of t / p is set.
func hostileOne(prop string, t *rm.Type, p *prim, le bool, w []byte) *ev.Violation {
	var dec func(*bytes.Buffer) error
	if t != nil {
		dec = bind.DecodeFunc(bind.New(t))
	}
	in := append([]byte{}, w...)
	buf := bytes.NewBuffer(in)
	var err error
	var pan any
	var m0, m1 runtime.MemStats
	ticks0 := tickCount()
	if prop == "C10" {
		runtime.ReadMemStats(&m0)
	}
	func() {
		defer func() {
			if x := recover(); x != nil {
				pan = x
			}
		}()
		if t != nil {
			err = dec(buf)
		} else {
			_, err = p.read(buf, le)
		}
	}()
	if prop == "C10" {
		runtime.ReadMemStats(&m1)
	}
	ticks := tickCount() - ticks0
	mk := func(kind, detail string) *ev.Violation {
		if t != nil {
			return vioWire(kind, t, "", detail, w)
		}
		return &ev.Violation{Kind: kind, Subject: p.name + fmt.Sprintf(" le=%v", le), Detail: detail,
			Replay: map[string]any{"op": "primwire", "prim": p.name, "le": le, "wire": hex.EncodeToString(w)}}
	}
	switch prop {
	case "C09":
		if pan != nil {
			return mk("decode-panic", fmt.Sprintf("panic %v on %s", pan, hx(w)))
		}
		if lim := uint64(tickConst + tickPerB*len(w)); ticks > lim {
			return mk("decode-work-not-proportional", fmt.Sprintf("%d loop iterations for %d input bytes (limit %d) on %s", ticks, len(w), lim, hx(w)))
		}
	case "C10":
		d := m1.TotalAlloc - m0.TotalAlloc
		if d > allocBudget(len(w)) {
			return mk("alloc-exceeds-input", fmt.Sprintf("%d bytes allocated for %d input bytes (budget %d) err=%v on %s", d, len(w), allocBudget(len(w)), err, hx(w)))
		}
	}
	return nil
}

// hostileSpace enumerates the (decoder, wire) cases of C09/C10 deterministically.
// fn gets a global case index; the wire slice is only valid during the call.
func hostileSpace(thorough bool, fn func(idx int64, t *rm.Type, p *prim, le bool, w []byte, desc string)) {
	var idx int64
	// (a) all byte strings of length <= 2 for every message decoder
	short := make([][]byte, 0, 65793)
	short = append(short, []byte{})
	for a := 0; a < 256; a++ {
		short = append(short, []byte{byte(a)})
	}
	for a := 0; a < 256; a++ {
		for b := 0; b < 256; b++ {
			short = append(short, []byte{byte(a), byte(b)})
		}
	}
	for _, t := range bind.Types {
		for _, w := range short {
			fn(idx, t, nil, false, w, "short")
			idx++
		}
	}
	// (b) the same for every read primitive instantiation, both byte orders
	for i := range prims {
		for _, le := range []bool{false, true} {
			for _, w := range short {
				fn(idx, nil, &prims[i], le, w, "short")
				idx++
			}
		}
	}
	// (c) prefix extremes at primitive level: every prefix width x extreme values x 0..8 trailing bytes
	tail := []byte{1, 2, 3, 4, 5, 6, 7, 8}
	for i := range prims {
		p := &prims[i]
		pw := rm.ScalarWidth(p.field.Count)
		if p.field.Kind == "lentext" {
			pw = rm.ScalarWidth(p.field.Prefix)
		}
		if pw == 0 {
			continue
		}
		for _, le := range []bool{false, true} {
			for _, x := range prefixExtremes(pw) {
				for tl := 0; tl <= 8; tl++ {
					w := append(putPrefix(x, pw, le), tail[:tl]...)
					fn(idx, nil, p, le, w, "prefix-extreme")
					idx++
				}
			}
		}
	}
	// (e) a lying count AFTER a long run of real elements (a reservation that is bounded at first and widened once the
	//     decoder has seen enough genuine data): k real elements, claimed count k+1 .. 2^32-1, for 32/64-bit counts
	for i := range prims {
		p := &prims[i]
		if p.field.Kind != "list" || rm.ScalarWidth(p.field.Count) < 4 {
			continue
		}
		for _, k := range []int{1000, 65536, 65537} {
			l := &rm.Value{K: rm.VList, Elems: make([]*rm.Value, k)}
			for j := range l.Elems {
				switch p.field.Elem.Kind {
				case "fixtext":
					l.Elems[j] = rm.TextS("ab")
				case "lentext":
					l.Elems[j] = rm.TextS("x")
				default:
					l.Elems[j] = rm.Scalar(uint64(j) & rm.MaxOf("u"+p.field.Elem.Kind[1:]))
				}
			}
			for _, le := range []bool{false, true} {
				ref, segs, err := rm.EncodeField(&p.field, l, le)
				if err != nil || len(segs) == 0 {
					continue
				}
				for _, claimed := range []uint64{uint64(k) + 1, 1 << 24, 1 << 31, 1<<32 - 1} {
					w := append([]byte{}, ref...)
					copy(w[segs[0].Off:], putPrefix(claimed, segs[0].Len, le))
					fn(idx, nil, p, le, w, fmt.Sprintf("%d real elements, count claims %d", k, claimed))
					idx++
				}
			}
		}
	}
	for _, t := range bind.Types {
		for fi := range t.Fields {
			f := &t.Fields[fi]
			if f.Kind != "list" || rm.ScalarWidth(f.Count) < 4 {
				continue
			}
			for _, k := range []int{1000, 65536, 65537} {
				v := valenum.Distinct(t)
				l := &rm.Value{K: rm.VList, Elems: make([]*rm.Value, k)}
				for j := range l.Elems {
					if f.Elem.Kind == "struct" {
						l.Elems[j] = rm.Zero(t.Proto.Type(f.Elem.Type))
					} else if f.Elem.Kind == "fixtext" || f.Elem.Kind == "lentext" {
						l.Elems[j] = rm.TextS("x")
					} else {
						l.Elems[j] = rm.Scalar(uint64(j) & rm.MaxOf("u"+f.Elem.Kind[1:]))
					}
				}
				v.Fields[fi] = l
				ref, segs, _, err := rm.EncodeRef(v)
				if err != nil {
					continue
				}
				for _, sg := range segs {
					if sg.Role != "count" || sg.Path != "."+f.Name {
						continue
					}
					for _, claimed := range []uint64{uint64(k) + 1, 1 << 24, 1 << 31, 1<<32 - 1} {
						w := append([]byte{}, ref...)
						copy(w[sg.Off:], putPrefix(claimed, sg.Len, sg.Little))
						fn(idx, t, nil, false, w, fmt.Sprintf("%s: %d real elements, count claims %d", f.Name, k, claimed))
						idx++
					}
				}
			}
		}
	}
	// (f) SKEWED text lists (valid encodings): n elements of which one (first / middle / last) is long and the others are
	//     empty - a reservation computed as count x (some element's length) is quadratic in the input although count and
	//     length are each bounded by it
	skewed := func(f *rm.Field, emit func(l *rm.Value, desc string)) {
		for _, n := range []int{8, 64, 1000, 4000} {
			for _, L := range []int{1000, 4000, 60000} {
				if uint64(L) > rm.MaxOf(f.Elem.Prefix) || uint64(n) > rm.MaxOf(f.Count) {
					continue
				}
				for _, pos := range []int{0, n / 2, n - 1} {
					l := &rm.Value{K: rm.VList, Elems: make([]*rm.Value, n)}
					for j := range l.Elems {
						l.Elems[j] = rm.TextS("")
					}
					l.Elems[pos] = rm.Text(bytes.Repeat([]byte{'s'}, L))
					emit(l, fmt.Sprintf("skewed text list: %d elements, element %d of %d bytes, the others empty", n, pos, L))
				}
			}
		}
	}
	for i := range prims {
		p := &prims[i]
		if p.field.Kind != "list" || p.field.Elem.Kind != "lentext" {
			continue
		}
		for _, le := range []bool{false, true} {
			skewed(&p.field, func(l *rm.Value, desc string) {
				if ref, _, err := rm.EncodeField(&p.field, l, le); err == nil {
					fn(idx, nil, p, le, ref, desc)
					idx++
				}
			})
		}
	}
	for _, t := range bind.Types {
		for fi := range t.Fields {
			f := &t.Fields[fi]
			if f.Kind != "list" || f.Elem.Kind != "lentext" {
				continue
			}
			skewed(f, func(l *rm.Value, desc string) {
				v := valenum.Distinct(t)
				v.Fields[fi] = l
				if ref, _, _, err := rm.EncodeRef(v); err == nil {
					fn(idx, t, nil, false, ref, f.Name+": "+desc)
					idx++
				}
			})
		}
	}
	// (d) per message type: seeds, truncations, substitutions, prefix extremes, unknown keys
	for _, t := range bind.Types {
		wireSpace(t, wireOpts{Dev: 1, Indel: true, DevBaseOnly: !thorough, Big: true, Dev2Base: thorough && encLen(valenum.Distinct(t)) <= 120}, func(w []byte, desc string) bool {
			fn(idx, t, nil, false, w, desc)
			idx++
			return true
		})
		seeds(t, true, false, func(w []byte, c *valenum.Case) bool {
			for cut := 0; cut < len(w); cut++ {
				fn(idx, t, nil, false, w[:cut], "truncation")
				idx++
			}
			return true
		})
		for _, base := range []*rm.Value{valenum.Distinct(t), valenum.Long(t)} {
			ref, segs, _, err := rm.EncodeRef(base)
			if err != nil {
				continue
			}
			for _, s := range segs {
				switch s.Role {
				case "count", "textlen":
					vals := prefixExtremes(s.Len)
					if thorough && s.Len == 2 {
						vals = vals[:0]
						for x := 0; x < 65536; x++ {
							vals = append(vals, uint64(x))
						}
					}
					for _, x := range vals {
						for tl := 0; tl <= 8; tl++ {
							end := s.Off + s.Len + tl
							if end > len(ref) {
								break
							}
							w := append([]byte{}, ref[:end]...)
							copy(w[s.Off:], putPrefix(x, s.Len, s.Little))
							fn(idx, t, nil, false, w, fmt.Sprintf("prefix %s:=%#x +%d bytes", s.Path, x, tl))
							idx++
						}
						// and with the whole original tail
						w := append([]byte{}, ref...)
						copy(w[s.Off:], putPrefix(x, s.Len, s.Little))
						fn(idx, t, nil, false, w, fmt.Sprintf("prefix %s:=%#x full tail", s.Path, x))
						idx++
					}
				}
			}
		}
		if t.DynField() >= 0 {
			for _, w := range unknownKeyWires(t) {
				fn(idx, t, nil, false, w, "unknown key")
				idx++
			}
		}
	}
}

func prefixExtremes(w int) []uint64 {
	max := rm.MaxOf([]string{"", "u8", "u16", "", "u32", "", "", "", "u64"}[w])
	hi := uint64(1) << (8*uint(w) - 1)
	out := []uint64{max, max - 1, hi, hi - 1, hi + 1}
	for _, x := range []uint64{255, 256, 65535, 65536, 1 << 24, 1<<31 - 1, 1 << 31, 1 << 32, 1 << 40, 1<<62 + 5, 1 << 63} {
		if x <= max {
			out = append(out, x)
		}
	}
	return out
}

func putPrefix(x uint64, w int, le bool) []byte {
	b := make([]byte, 8)
	if le {
		binary.LittleEndian.PutUint64(b, x)
		return b[:w]
	}
	binary.BigEndian.PutUint64(b, x)
	return b[8-w:]
}

// unknownKeyWires: the D-base wire of t with members of the unregistered-key alphabet spliced into the key segment.
func unknownKeyWires(t *rm.Type) [][]byte {
	v := valenum.Distinct(t)
	ref, segs, _, err := rm.EncodeRef(v)
	if err != nil {
		return nil
	}
	keyName := t.Fields[t.DynField()].Key
	var out [][]byte
	for _, s := range segs {
		if s.Path != "."+keyName {
			continue
		}
		for _, k := range unregisteredKeys(t, s.Len) {
			w := append([]byte{}, ref...)
			copy(w[s.Off:s.Off+s.Len], k)
			out = append(out, w)
		}
	}
	return out
}

// unregisteredKeys: the quick alphabet of key-field wire images that are not registered (DESIGN C12).
func unregisteredKeys(t *rm.Type, width int) [][]byte {
	tab := dynTable(t)
	var out [][]byte
	if tab.KeyKind == "text" {
		al := []byte("0123456789 AZaz\x00\xff")
		reg := map[string]bool{}
		for k := range tab.Entries {
			reg[k] = true
		}
		for _, a := range al {
			for _, b := range al {
				for _, c := range al {
					w := []byte{a, b, c}
					if !reg[string(rm.StripText(w, ' ', false))] {
						out = append(out, w)
					}
				}
			}
		}
		return out
	}
	reg := map[uint64]bool{}
	for k := range tab.Entries {
		n, _ := strconv.ParseUint(k, 10, 64)
		reg[n] = true
	}
	max := rm.MaxOf("u" + tab.KeyKind[1:])
	cand := []uint64{0, max, max - 1, 1 << 15, 1 << 31 & max}
	for n := range reg {
		cand = append(cand, n+1, n-1, n<<8&max, n<<16&max, n<<24&max, n|0x80000000&max)
		// byte-swapped
		b := putPrefix(n, width, false)
		cand = append(cand, getLE(b))
	}
	for i := uint(0); i < uint(8*width); i++ {
		cand = append(cand, 1<<i)
	}
	seen := map[uint64]bool{}
	for _, c := range cand {
		c &= max
		if reg[c] || seen[c] {
			continue
		}
		seen[c] = true
		out = append(out, putPrefix(c, width, t.Little()))
	}
	return out
}

func getLE(b []byte) uint64 {
	var v uint64
	for i := range b {
		v |= uint64(b[i]) << (8 * uint(i))
	}
	return v
}

// ---- worker ----

type workerMsg struct {
	Kind      string        `json:"kind"` // violation | done
	Violation *ev.Violation `json:"violation,omitempty"`
	Evals     int64         `json:"evals,omitempty"`
	Distinct  int64         `json:"distinct,omitempty"`
	Accepted  int64         `json:"accepted,omitempty"`
	MaxRatio  float64       `json:"max_ratio,omitempty"`
	Sample    any           `json:"sample,omitempty"`
}

// decodeWorker: args: prop tier id n journal startIdx
func decodeWorker() {
	prop, tier := os.Args[3], os.Args[4]
	id, _ := strconv.Atoi(os.Args[5])
	n, _ := strconv.Atoi(os.Args[6])
	jpath := os.Args[7]
	start, _ := strconv.ParseInt(os.Args[8], 10, 64)
	runtime.GOMAXPROCS(1)
	lim := syscall.Rlimit{Cur: addrLimit, Max: addrLimit}
	if err := syscall.Setrlimit(syscall.RLIMIT_AS, &lim); err != nil {
		fmt.Fprintln(os.Stderr, "setrlimit:", err)
		os.Exit(2)
	}
	jf, err := os.OpenFile(jpath, os.O_RDWR|os.O_CREATE, 0o644)
	if err != nil {
		fmt.Fprintln(os.Stderr, err)
		os.Exit(2)
	}
	jf.Truncate(journalSize)
	j, err := syscall.Mmap(int(jf.Fd()), 0, journalSize, syscall.PROT_READ|syscall.PROT_WRITE, syscall.MAP_SHARED)
	if err != nil {
		fmt.Fprintln(os.Stderr, "mmap:", err)
		os.Exit(2)
	}
	out := bufio.NewWriter(os.Stdout)
	enc := json.NewEncoder(out)
	var evals, nviol int64
	seen := map[uint64]struct{}{}
	nsamples := 0
	hostileSpace(tier == "thorough", func(idx int64, t *rm.Type, p *prim, le bool, w []byte, desc string) {
		if idx < start {
			return
		}
		who := ""
		if t != nil {
			who = "T " + t.QName()
		} else {
			who = fmt.Sprintf("P %v %s", le, p.name)
		}
		h := ev.H(who + "|" + string(w))
		if h%uint64(n) != uint64(id) {
			return
		}
		if _, dup := seen[h]; dup {
			return
		}
		seen[h] = struct{}{}
		// journal the case before executing it: idx, who, wire
		binary.LittleEndian.PutUint64(j[0:], uint64(idx)+1)
		binary.LittleEndian.PutUint32(j[8:], uint32(len(who)))
		copy(j[16:16+200], who)
		wl := len(w)
		if wl > journalSize-256 {
			wl = journalSize - 256
		}
		binary.LittleEndian.PutUint32(j[12:], uint32(wl))
		copy(j[256:], w[:wl])
		evals++
		if id == 0 && nsamples < 6 && evals%100003 == 1 {
			nsamples++
			enc.Encode(workerMsg{Kind: "sample", Sample: map[string]any{"decoder": who[2:], "wire": hx(w), "class": desc}})
		}
		if v := hostileOne(prop, t, p, le, w); v != nil && nviol < 40 {
			v.Detail = desc + ": " + v.Detail
			enc.Encode(workerMsg{Kind: "violation", Violation: v})
			out.Flush()
			nviol++
		}
	})
	binary.LittleEndian.PutUint64(j[0:], 0)
	enc.Encode(workerMsg{Kind: "done", Evals: evals, Distinct: int64(len(seen))})
	out.Flush()
}

// ---- supervisor ----

func superviseDecode(r *ev.Run, prop string, thorough bool) {
	tier := "quick"
	if thorough {
		tier = "thorough"
	}
	n := runtime.NumCPU()
	exe, _ := os.Executable()
	dir := filepath.Join(ev.Root, ".work", fmt.Sprintf("%s.journal.%d", prop, os.Getpid()))
	os.MkdirAll(dir, 0o755)
	defer os.RemoveAll(dir)
	var wg sync.WaitGroup
	var mu sync.Mutex
	deaths := 0
	var distinct int64
	for id := 0; id < n; id++ {
		wg.Add(1)
		go func(id int) {
			defer wg.Done()
			runtime.LockOSThread() // Pdeathsig is tied to the creating thread: keep it alive as long as the child
			jpath := filepath.Join(dir, fmt.Sprintf("j%d", id))
			start := int64(0)
			for attempt := 0; attempt < 50; attempt++ {
				os.Remove(jpath)
				cmd := exec.Command(exe, "worker", "decode", prop, tier, strconv.Itoa(id), strconv.Itoa(n), jpath, strconv.FormatInt(start, 10))
				cmd.SysProcAttr = &syscall.SysProcAttr{Pdeathsig: syscall.SIGKILL}
				stdout, _ := cmd.StdoutPipe()
				var stderr bytes.Buffer
				cmd.Stderr = &stderr
				if err := cmd.Start(); err != nil {
					fmt.Fprintln(os.Stderr, "worker start:", err)
					os.Exit(2)
				}
				// hang guard: a case that normally takes microseconds is given caseDeadline (a >10^6x margin) before the
				// worker is killed and the journalled case recorded as a hang; never a fine-grained oracle
				var hung atomic.Bool
				stopWatch := make(chan struct{})
				go func() {
					last, since := uint64(0), time.Now()
					tk := time.NewTicker(time.Second)
					defer tk.Stop()
					for {
						select {
						case <-stopWatch:
							return
						case <-tk.C:
						}
						if stopAll.Load() {
							cmd.Process.Kill()
							return
						}
						jb, err := os.ReadFile(jpath)
						if err != nil || len(jb) < 8 {
							continue
						}
						cur := binary.LittleEndian.Uint64(jb)
						if cur != last || cur == 0 {
							last, since = cur, time.Now()
							continue
						}
						if time.Since(since) > caseDeadline {
							hung.Store(true)
							cmd.Process.Kill()
							return
						}
					}
				}()
				done := false
				sc := bufio.NewScanner(stdout)
				sc.Buffer(make([]byte, 1<<20), 64<<20)
				for sc.Scan() {
					var m workerMsg
					if json.Unmarshal(sc.Bytes(), &m) != nil {
						continue
					}
					switch m.Kind {
					case "violation":
						r.Violate(m.Violation)
						if r.NumViolations() >= 12 {
							stopAll.Store(true) // enough counterexamples: stop exploring (reported as not exhaustive)
						}
					case "sample":
						r.Sample(m.Sample)
					case "done":
						done = true
						r.AddEvals(m.Evals)
						mu.Lock()
						distinct += m.Distinct
						mu.Unlock()
					}
				}
				err := cmd.Wait()
				close(stopWatch)
				if done && err == nil {
					return
				}
				if stopAll.Load() {
					return
				}
				// the worker died: attribute it to the journalled case
				jb, _ := os.ReadFile(jpath)
				if len(jb) < 256 || binary.LittleEndian.Uint64(jb) == 0 {
					fmt.Fprintf(os.Stderr, "worker %d died outside a case: %v\n%s\n", id, err, tailStr(stderr.String(), 2000))
					os.Exit(2)
				}
				idx := int64(binary.LittleEndian.Uint64(jb)) - 1
				who := string(jb[16 : 16+binary.LittleEndian.Uint32(jb[8:])])
				w := append([]byte{}, jb[256:256+binary.LittleEndian.Uint32(jb[12:])]...)
				mu.Lock()
				deaths++
				mu.Unlock()
				reason := tailStr(firstLine(stderr.String()), 300)
				v := &ev.Violation{Kind: "process-died", Subject: who, Detail: fmt.Sprintf("decoding %s killed the process under an %d GiB address-space limit: %s", hx(w), addrLimit>>30, reason)}
				if hung.Load() {
					v = &ev.Violation{Kind: "decode-hang", Subject: who, Detail: fmt.Sprintf("decoding the %d bytes %s did not return within %v (other cases take microseconds)", len(w), hx(w), caseDeadline)}
				}
				mu.Lock()
				if deaths >= 6 {
					stopAll.Store(true) // enough evidence: stop exploring, report what was found (exhaustive=false)
				}
				mu.Unlock()
				if who[0] == 'T' {
					v.Subject = who[2:]
					v.Replay = map[string]any{"op": "wire", "type": who[2:], "wire": hex.EncodeToString(w), "note": "replay in a process with RLIMIT_AS set (bin/vcheck replay does this)"}
				} else {
					var le bool
					var name string
					fmt.Sscanf(who[2:], "%t %s", &le, &name)
					v.Subject = name + fmt.Sprintf(" le=%v", le)
					v.Replay = map[string]any{"op": "primwire", "prim": name, "le": le, "wire": hex.EncodeToString(w)}
				}
				r.Violate(v)
				start = idx + 1
			}
		}(id)
	}
	wg.Wait()
	if stopAll.Load() {
		r.Cap("exploration stopped early after 12 violations or 7 worker deaths/hangs (violations reported)")
	}
	r.Set("worker_processes", n)
	r.Set("worker_deaths", deaths)
	r.Set("address_space_limit_bytes", addrLimit)
	r.Set("tick_counter_active", tickActive())
	// cases are partitioned over the workers by hash of (decoder, wire) and deduplicated there, so the sum is exact
	r.SetDistinct(distinct)
	r.Transition(r.Evaluations)
	r.Trace(r.Evaluations)
	if prop == "C09" {
		r.Rule = "every decoder (170 message types + 74 primitive instantiations x BE/LE) x {all byte strings of length <=2; every strict prefix of every V1 reference wire; seeds and their 1-byte insertions, deletions and substitutions; every count/length prefix set to each extreme value followed by 0..8 original bytes and by the full tail; unregistered discriminators spliced in; for 32/64-bit counts 1000/65536/65537 real elements followed by a count that claims more; skewed text lists (8..4000 elements, one of 1000..60000 bytes, the others empty)}; executed in 16 worker processes under RLIMIT_AS=8GiB with the case journalled before execution; oracle: the call returns (no panic, no process death), loop iterations <= 256+64*len(input) when the tick instrumentation is active"
	} else {
		r.Rule = "same space as C09; oracle: runtime.MemStats.TotalAlloc delta around the single decode call <= 16384+64*len(input) bytes, worker survives RLIMIT_AS=8GiB; the budget is validated in the same run on every valid encoding of V1"
	}
	r.Assume("a worker death is attributed to the case journalled (mmap) immediately before execution", "20-minute per-worker hang guard, not an oracle")
}

func firstLine(s string) string {
	for i, c := range s {
		if c == '\n' {
			return s[:i]
		}
	}
	return s
}

func tailStr(s string, n int) string {
	if len(s) > n {
		return s[:n]
	}
	return s
}
