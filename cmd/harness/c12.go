package main

import (
	"bytes"
	"fmt"
	"reflect"
	"runtime"
	"strconv"
	"sync"
	"sync/atomic"

	"github.com/xinchentechnote/fin-proto-go/codec"

	"verif/engine/bind"
	"verif/engine/ev"
	rm "verif/engine/refmodel"
	"verif/engine/valenum"
)

func init() {
	checks["C12"] = runC12
	replayers["key"] = func(prop string, rp map[string]any) *ev.Violation {
		t := bind.TypeByQName(rp["type"].(string))
		var kb []byte
		fmt.Sscanf(rp["key"].(string), "%x", &kb)
		if len(rp["key"].(string)) == 0 {
			kb = []byte{}
		}
		return c12Key(t, kb, rp["mode"].(string))
	}
}

func c12Vio(kind string, t *rm.Type, key []byte, mode, detail string) *ev.Violation {
	return &ev.Violation{Kind: kind, Subject: t.QName() + " " + mode, Detail: fmt.Sprintf("key %q (%x): %s", key, key, detail),
		Replay: map[string]any{"op": "key", "type": t.QName(), "key": fmt.Sprintf("%x", key), "mode": mode}}
}

// keyValueFromBytes interprets a key-field wire image as the table key value.
func keyValueFromBytes(t *rm.Type, kb []byte) *rm.Value {
	tab := dynTable(t)
	if tab.KeyKind == "text" {
		return rm.Text(kb)
	}
	var x uint64
	for _, b := range kb { // big-endian image of the number
		x = x<<8 | uint64(b)
	}
	return rm.Scalar(x)
}

// c12Key checks one key (given as text bytes, or the big-endian image of a numeric key) in one mode:
//
//	factory : the exported New…MessageBy… function
//	decode  : a full Decode of the D-base wire with the key spliced in
//	fill    : Encode with a nil body/extension (only where the encoder fills it in)
func c12Key(t *rm.Type, kb []byte, mode string) (v *ev.Violation) {
	defer func() {
		if p := recover(); p != nil {
			v = c12Vio("panic", t, kb, mode, fmt.Sprint(p))
		}
	}()
	tab := dynTable(t)
	di := t.DynField()
	f := &t.Fields[di]
	ki := t.FieldIndex(f.Key)
	kv := keyValueFromBytes(t, kb)
	ks := rm.KeyString(tab, kv)
	switch mode {
	case "factory":
		wantType, reg := tab.Entries[ks]
		body, err := bind.Factory(t.Proto, tab, kv)
		if reg {
			if err != nil || body == nil {
				return c12Vio("registered-key-refused", t, kb, mode, fmt.Sprintf("factory returned (%v, %v), pinned type %s", body, err, wantType))
			}
			if got := reflect.TypeOf(body).Elem(); got != bind.GoType(t.Proto.Type(wantType)) {
				return c12Vio("wrong-body-type", t, kb, mode, fmt.Sprintf("factory built %s, pinned type %s", got, wantType))
			}
		} else if err == nil || body != nil {
			return c12Vio("unregistered-key-accepted", t, kb, mode, fmt.Sprintf("factory returned (%T, %v) for an unregistered key", body, err))
		}
	case "decode", "decode-reused":
		base := valenum.Distinct(t)
		if tn, reg := tab.Entries[ks]; reg {
			rm.SetDyn(base, ks, valenum.Distinct(t.Proto.Type(tn)))
		}
		// render with the reference, then splice the raw key image into the key segment
		ref, segs, _, err := rm.EncodeRef(base)
		if err != nil {
			panic(err)
		}
		for _, s := range segs {
			if s.Path == "."+f.Key {
				var img []byte
				if tab.KeyKind != "text" {
					img = putPrefix(kv.Bits, s.Len, t.Little())
				} else {
					img = rm.FixText(kb, s.Len, byte(t.Fields[ki].Pad), t.Fields[ki].Left)
				}
				copy(ref[s.Off:s.Off+s.Len], img)
			}
		}
		want, wcons, werr := rm.DecodeRef(t, ref)
		msg := bind.New(t)
		if mode == "decode-reused" {
			// the receiver already holds a body of another registered type (a frame object that is being reused)
			other := tab.Order[0]
			if other == ks {
				other = tab.Order[len(tab.Order)-1]
			}
			msg = bind.MustReal(valenum.WithKey(t, other, "D"))
		}
		buf := bytes.NewBuffer(append([]byte{}, ref...))
		derr := bind.Decode(msg, buf)
		if werr != nil {
			if derr == nil {
				return c12Vio("unregistered-key-accepted", t, kb, mode, fmt.Sprintf("Decode succeeded on %s although the key is not registered (body %s)", hx(ref), bind.DynGoType(msg, f.Name)))
			}
			if bt := bind.DynGoType(msg, f.Name); bt != "" && mode == "decode" {
				return c12Vio("body-guessed", t, kb, mode, fmt.Sprintf("Decode failed (%v) but left a body of type %s", derr, bt))
			}
			return nil
		}
		if derr != nil {
			return c12Vio("registered-key-refused", t, kb, mode, fmt.Sprintf("Decode of %s failed: %v", hx(ref), derr))
		}
		got := bind.MustFrom(t, msg)
		if d := rm.Diff(want, got, ""); d != "" || len(ref)-buf.Len() != wcons {
			return c12Vio("wrong-body-type", t, kb, mode, fmt.Sprintf("decoded message differs from the pinned schema at %s (body %s)", d, bind.DynGoType(msg, f.Name)))
		}
		// and it round-trips
		out := &bytes.Buffer{}
		if err := bind.Encode(msg, out); err != nil || !bytes.Equal(out.Bytes(), ref) {
			return c12Vio("no-roundtrip", t, kb, mode, fmt.Sprintf("re-encode err=%v", err))
		}
	case "fill":
		if f.Nil != "fill" {
			return nil
		}
		v0 := valenum.NilDyn(valenum.Distinct(t))
		v0.Fields[ki] = kv
		ref, _, after, rerr := rm.EncodeRef(v0)
		msg := bind.MustReal(v0)
		out := &bytes.Buffer{}
		err := bind.Encode(msg, out)
		if tn, reg := tab.Entries[ks]; reg && rerr != nil {
			// the key is registered here but the filled-in body cannot itself be encoded (e.g. its own nil extension
			// has an unregistered application id): Encode must fail, and a body, if filled in, must be the pinned type
			if err == nil {
				return c12Vio("nested-unregistered-key-accepted", t, kb, mode, "Encode with a nil body succeeded although the filled-in body has an unregistered extension key")
			}
			if bt := bind.DynGoType(msg, f.Name); bt != "" && bt != "*"+bind.GoType(t.Proto.Type(tn)).String() {
				return c12Vio("wrong-body-type", t, kb, mode, fmt.Sprintf("filled in %s, pinned %s", bt, tn))
			}
			return nil
		}
		if rerr != nil { // unregistered
			if err == nil {
				return c12Vio("unregistered-key-accepted", t, kb, mode, fmt.Sprintf("Encode with a nil body succeeded and built %s", bind.DynGoType(msg, f.Name)))
			}
			if bt := bind.DynGoType(msg, f.Name); bt != "" {
				return c12Vio("body-guessed", t, kb, mode, fmt.Sprintf("Encode failed (%v) but filled in a body of type %s", err, bt))
			}
			return nil
		}
		if err != nil {
			return c12Vio("registered-key-refused", t, kb, mode, fmt.Sprintf("Encode with a nil body failed: %v", err))
		}
		got := bind.MustFrom(t, msg)
		if d := rm.Diff(after, got, ""); d != "" {
			return c12Vio("wrong-body-type", t, kb, mode, fmt.Sprintf("after Encode the message differs from the model at %s (body %s)", d, bind.DynGoType(msg, f.Name)))
		}
		if !bytes.Equal(out.Bytes(), ref) {
			return c12Vio("wrong-bytes", t, kb, mode, fmt.Sprintf("wrote %s want %s", hx(out.Bytes()), hx(ref)))
		}
	}
	return nil
}

// keyImage renders a registered table key as the bytes c12Key expects.
func keyImage(t *rm.Type, k string) []byte {
	tab := dynTable(t)
	if tab.KeyKind == "text" {
		return []byte(k)
	}
	n, _ := strconv.ParseUint(k, 10, 64)
	return putPrefix(n, rm.ScalarWidth(tab.KeyKind), false)
}

func runC12(r *ev.Run, thorough bool) {
	r.Rule = "18 discriminator tables: (i) every pinned key through the factory function, through a full Decode of a reference message into a fresh receiver and into a reused receiver holding a body of another registered type, and through Encode with a nil body where the encoder fills it in: exactly the pinned body type, reference bytes, round trip; registered text keys with pad variations on the wire; EVERY key at Hamming distance 1 (one byte replaced by any of the 255 others) of every registered key through factory, Decode and nil-body Encode; (ii) unregistered keys: sample root table ALL 65,536 values; ApplID tables ALL strings of length <=2 and " + map[bool]string{false: "all 3-byte strings over a 17-byte alphabet", true: "ALL 2^24 three-byte strings"}[thorough] + " through the factory, the 17-byte-alphabet strings through full Decode and nil-body Encode; 32-bit tables neighbours/powers of two/byte-swaps" + map[bool]string{false: "", true: " and ALL 2^32 values through the factory"}[thorough] + "; oracle: registered => pinned type both ways, unregistered => error, no panic, no body; distinct = (table,key,mode)"
	var dyn []*rm.Type
	for _, t := range bind.Types {
		if t.DynField() >= 0 {
			dyn = append(dyn, t)
		}
	}
	r.Set("tables", len(dyn))
	nkeys := 0
	parTypes(r, dyn, func(t *rm.Type, l *ev.Local) {
		tab := dynTable(t)
		run := func(kb []byte, mode string) {
			key := ev.H(t.QName() + mode + string(kb))
			l.Eval(key, true)
			l.States[key] = struct{}{}
			l.Transitions++
			l.Traces++
			if v := c12Key(t, kb, mode); v != nil {
				r.Violate(v)
			}
		}
		for _, k := range tab.Order {
			kb := keyImage(t, k)
			for _, m := range []string{"factory", "decode", "decode-reused", "fill"} {
				run(kb, m)
			}
			// the complete Hamming-1 ball around every registered key: each byte of the key image replaced by each of the
			// 256 byte values (a look-up that normalises, parses or hashes the key confuses neighbours first: "+10"/"010")
			for pos := range kb {
				for b := 0; b < 256; b++ {
					if byte(b) == kb[pos] {
						continue
					}
					nb := append([]byte{}, kb...)
					nb[pos] = byte(b)
					for _, m := range []string{"factory", "decode", "fill"} {
						run(nb, m)
					}
				}
			}
			if tab.KeyKind == "text" {
				// a registered key with surrounding white space / NUL in the message object's key field (which is a Go
				// string of any length): not a registered value, so the factory and a nil-body Encode must refuse it
				for _, dec := range [][2]string{{"", " "}, {" ", ""}, {" ", " "}, {"\t", ""}, {"", "\n"}, {"", "\x00"}, {"0", ""}, {"", "0"}} {
					kk := []byte(dec[0] + k + dec[1])
					run(kk, "factory")
					run(kk, "fill")
				}
				// pad variations of a registered key: must resolve by the trimmed text or fail
				for _, var_ := range [][]byte{append([]byte(k[:2]), ' '), append([]byte{' '}, k[:2]...), {k[0], ' ', ' '}, append([]byte(k[:2]), 0), {' ', ' ', ' '}} {
					run(var_, "decode")
					run(var_, "factory")
				}
			}
		}
		w := rm.ScalarWidth(tab.KeyKind)
		if tab.KeyKind == "text" {
			w = 3
		}
		for _, kb := range unregisteredKeys(t, w) {
			if tab.KeyKind != "text" && t.Little() {
				// unregisteredKeys renders in protocol order; c12Key wants the big-endian image
				for i, j := 0, len(kb)-1; i < j; i, j = i+1, j-1 {
					kb[i], kb[j] = kb[j], kb[i]
				}
			}
			for _, m := range []string{"factory", "decode", "decode-reused", "fill"} {
				run(kb, m)
			}
		}
		if tab.KeyKind == "text" {
			// all strings of length <= 2 through the factory (the factory takes any string)
			run([]byte{}, "factory")
			for a := 0; a < 256; a++ {
				run([]byte{byte(a)}, "factory")
				for b := 0; b < 256; b++ {
					run([]byte{byte(a), byte(b)}, "factory")
				}
			}
			for _, kb := range [][]byte{[]byte("0100"), []byte("010 "), []byte(" 010"), []byte("0101")} {
				run(kb, "factory")
			}
		}
	})
	for _, t := range dyn {
		nkeys += len(dynTable(t).Entries)
	}
	r.Set("registered_keys", nkeys)
	// exhaustive sweeps through the factory with direct (non-reflective) calls
	sweepFactories(r, dyn, thorough)
	r.Sample(map[string]any{"table": "szse.NewOrder ApplID", "key": "051", "pinned": "Extend100501", "modes": []string{"factory", "decode", "fill"}})
	r.Sample(map[string]any{"table": "sample.RootPacket MsgType", "key": "0x0005", "expect": "error, no body"})
}

func sweepFactories(r *ev.Run, dyn []*rm.Type, thorough bool) {
	var total int64
	var wg sync.WaitGroup
	sem := make(chan struct{}, runtime.NumCPU())
	for _, t := range dyn {
		tab := dynTable(t)
		fany := bind.RawFactory(t.Proto, tab)
		wantGo := map[string]reflect.Type{}
		for k, tn := range tab.Entries {
			wantGo[k] = bind.GoType(t.Proto.Type(tn))
		}
		check := func(ks string, kb []byte, body codec.BinaryCodec, err error) {
			wt, reg := wantGo[ks]
			if reg {
				if err != nil || body == nil || reflect.TypeOf(body).Elem() != wt {
					r.Violate(c12Vio("wrong-body-type", t, kb, "factory-sweep", fmt.Sprintf("factory returned (%T, %v), pinned %s", body, err, wt)))
				}
			} else if err == nil || body != nil {
				r.Violate(c12Vio("unregistered-key-accepted", t, kb, "factory-sweep", fmt.Sprintf("factory returned (%T, %v)", body, err)))
			}
		}
		switch fn := fany.(type) {
		case func(string) (codec.BinaryCodec, error):
			al := []byte("0123456789 AZaz\x00\xff")
			n := len(al)
			if thorough {
				n = 256
			}
			for a := 0; a < n; a++ {
				wg.Add(1)
				sem <- struct{}{}
				go func(a int) {
					defer wg.Done()
					defer func() { <-sem }()
					var cnt int64
					kb := make([]byte, 3)
					for b := 0; b < n; b++ {
						for c := 0; c < n; c++ {
							if thorough {
								kb[0], kb[1], kb[2] = byte(a), byte(b), byte(c)
							} else {
								kb[0], kb[1], kb[2] = al[a], al[b], al[c]
							}
							ks := string(kb)
							body, err := fn(ks)
							check(ks, kb, body, err)
							cnt++
						}
					}
					atomic.AddInt64(&total, cnt)
				}(a)
			}
		case func(uint16) (codec.BinaryCodec, error):
			wg.Add(1)
			sem <- struct{}{}
			go func() {
				defer wg.Done()
				defer func() { <-sem }()
				for x := 0; x < 65536; x++ {
					body, err := fn(uint16(x))
					check(strconv.Itoa(x), putPrefix(uint64(x), 2, false), body, err)
				}
				atomic.AddInt64(&total, 65536)
			}()
		case func(uint32) (codec.BinaryCodec, error):
			if !thorough {
				continue
			}
			minReg, maxReg := ^uint32(0), uint32(0)
			for k := range wantGo {
				n, _ := strconv.ParseUint(k, 10, 32)
				if uint32(n) < minReg {
					minReg = uint32(n)
				}
				if uint32(n) > maxReg {
					maxReg = uint32(n)
				}
			}
			for hi := 0; hi < 256; hi++ {
				wg.Add(1)
				sem <- struct{}{}
				go func(hi int) {
					defer wg.Done()
					defer func() { <-sem }()
					base := uint32(hi) << 24
					for lo := uint32(0); lo < 1<<24; lo++ {
						x := base | lo
						body, err := fn(x)
						if err == nil || body != nil || (x >= minReg && x <= maxReg) {
							check(strconv.FormatUint(uint64(x), 10), putPrefix(uint64(x), 4, false), body, err)
						}
					}
					atomic.AddInt64(&total, 1<<24)
				}(hi)
			}
		default:
			fmt.Printf("note: factory %s has an unexpected signature %T\n", tab.Factory, fany)
		}
	}
	wg.Wait()
	r.AddEvals(total)
	r.Transition(total)
	r.Trace(total)
	r.SetDistinctAdd(total)
	r.Set("factory_sweep_calls", total)
}
