package main

import (
	"bytes"
	"fmt"
	"runtime"
	"strings"
	"sync"

	"github.com/xinchentechnote/fin-proto-go/codec"

	"verif/engine/bind"
	"verif/engine/ev"
	rm "verif/engine/refmodel"
	"verif/engine/valenum"
)

func init() {
	checks["C04"] = func(r *ev.Run, th bool) { runFrameHist(r, "C04", th) }
	checks["C05"] = func(r *ev.Run, th bool) { runFrameHist(r, "C05", th) }
	checks["C06"] = runC06
	checks["C07"] = runC07
	checks["C16"] = runC16
	caseChecks["C04"] = c04RegistryCase
	caseChecks["C05reg"] = func(t *rm.Type, v *rm.Value) *ev.Violation { return checksumRegistryCase(t, v, "C05") }
	caseChecks["C03reg"] = func(t *rm.Type, v *rm.Value) *ev.Violation { return checksumRegistryCase(t, v, "C03") }
}

func dynTable(t *rm.Type) *rm.Table {
	return t.Proto.Table(t.Fields[t.DynField()].Factory)
}

func encLen(v *rm.Value) int {
	b, err := rm.EncodeBytes(v)
	if err != nil {
		panic(err)
	}
	return len(b)
}

// frameScenarios: one scenario per (frame type, registered key) + one nil-body scenario per frame type.
func frameScenarios(only func(t *rm.Type) bool, depth int) []*hScenario {
	var out []*hScenario
	ops := []hOp{{opENC, 0}, {opENC, 1}, {opENC, 2}, {opSKIP, 1}, {opSKIP, 3}, {opJUNK, 0}, {opJUNK, 1}, {opRESET, 0}}
	for _, t := range bind.Types {
		if t.DynField() < 0 || dynTable(t).KeyKind == "text" || !only(t) {
			continue
		}
		tab := dynTable(t)
		hdr := encLen(valenum.NilDyn(valenum.WithKey(t, tab.Order[0], "Z")))
		for _, k := range tab.Order {
			z := valenum.WithKey(t, k, "Z")
			d := valenum.Stale(valenum.WithKey(t, k, "D"), 4)
			lg := valenum.Stale(valenum.WithKey(t, k, "L"), 0xFFFFFFFF)
			out = append(out, &hScenario{Name: t.QName() + " key " + k, T: t, Msgs: []*rm.Value{z, d, lg}, Ops: ops, Depth: depth,
				Caps: append([]int{capZero, capOwned, 0, 1, hdr, encLen(d) - 1, 4096}, slideClasses...)})
		}
		// one scenario with a body larger than 65,536 bytes (a length that does not fit 16 bits), where a body type allows it
		for _, k := range tab.Order {
			hv := valenum.WithKey(t, k, "D")
			if !valenumHuge(hv) {
				continue
			}
			if n := encLen(hv); n > 65536+64 {
				out = append(out, &hScenario{Name: t.QName() + " huge body key " + k, T: t, Msgs: []*rm.Value{valenum.Stale(hv, 4)},
					Ops: []hOp{{opENC, 0}, {opSKIP, 3}, {opJUNK, 0}}, Depth: 2, Caps: []int{capZero, capOwned}})
				break
			}
		}
		if t.Fields[t.DynField()].Nil == "skip" {
			k0, k1 := tab.Order[0], tab.Order[len(tab.Order)-1]
			n0 := valenum.Stale(valenum.NilDyn(valenum.WithKey(t, k0, "Z")), 0xFFFFFFFF)
			n1 := valenum.Stale(valenum.NilDyn(valenum.WithKey(t, k1, "D")), 4)
			d := valenum.WithKey(t, k1, "D")
			out = append(out, &hScenario{Name: t.QName() + " nil body", T: t, Msgs: []*rm.Value{n0, n1, d}, Ops: ops, Depth: depth,
				Caps: append([]int{capZero, capOwned, 0, 1, hdr, 4096}, slideClasses...)})
		}
	}
	return out
}

// parScenarios explores scenarios on all cores; relevant decides which findings belong to prop.
func parScenarios(r *ev.Run, prop string, scs []*hScenario) {
	ch := make(chan *hScenario)
	var wg sync.WaitGroup
	rel := histRelevant[prop]
	for i := 0; i < runtime.NumCPU(); i++ {
		wg.Add(1)
		go func() {
			defer wg.Done()
			l := ev.NewLocal()
			for sc := range ch {
				if r.TooMany() {
					continue
				}
				exploreHistories(sc, l, func(f *hFinding, c int, seq []hOp) bool {
					if rel(f) {
						r.Violate(histViolation(prop, sc, f, c, seq))
						return !r.TooMany()
					}
					return true
				})
			}
			r.Merge(l)
		}()
	}
	for _, sc := range scs {
		ch <- sc
	}
	close(ch)
	wg.Wait()
	r.Set("scenarios", len(scs))
}

func runFrameHist(r *ev.Run, prop string, thorough bool) {
	depth := 3
	if thorough {
		depth = 5
	}
	want := "length"
	if prop == "C05" {
		want = "checksum"
	}
	scs := frameScenarios(func(t *rm.Type) bool {
		for i := range t.Fields {
			if t.Fields[i].Kind == want {
				return true
			}
		}
		return false
	}, depth)
	r.Rule = fmt.Sprintf("every frame type with a self-computed %s x every registered body key (bodies Z, D with stale caller values, L = 300-byte texts and 3-element lists) + nil body; ALL operation sequences of length <= %d over {ENC(m0),ENC(m1),ENC(m2),SKIP(1),SKIP(3),JUNK(AA),JUNK(AAx5),RESET} x 10 buffer capacity classes (zero value, caller-owned slice, capacities 0/1/header/size-1/4096, and three mostly-consumed 512-byte buffers whose next growth slides the unread bytes inside the same array), each replayed on fresh real objects next to a pure model; after every op buffer and message objects are compared with the model; distinct = distinct (scenario,capacity,sequence); all are non-trivial (each executes >=1 real operation)", want, depth)
	r.Assume("model transition for ENC is: unread ++= EncodeRef(m) with computed fields correct", "consumed bytes are not observable through the bytes.Buffer API and are not compared")
	parScenarios(r, prop, scs)
	// the value dimension: every V1 value of the frame types (every key, every body leaf deviation, stale computed fields)
	var frames []*rm.Type
	for _, sc := range scs {
		if len(frames) == 0 || frames[len(frames)-1] != sc.T {
			frames = append(frames, sc.T)
		}
	}
	v1Histories(r, prop, frames, [][]hOp{{{opJUNK, 1}, {opENC, 0}, {opSKIP, 3}, {opENC, 0}}}, capZero, false, false)
	v1Histories(r, prop, frames, [][]hOp{{{opENC, 0}}}, -117, false, false)
	// every registered body type with ITS OWN V1 (every leaf deviation of every body, mid-range list sizes included),
	// wrapped in the frame: a fresh buffer, a small-capacity buffer and a buffer holding earlier bytes
	frameBodyHistories(r, prop, frames, [][]hOp{{{opENC, 0}}, {{opJUNK, 1}, {opENC, 0}, {opENC, 0}}}, []int{capZero, 128})
	// a frame whose body the library must refuse, then valid frames (state left behind by the failed attempt)
	afterFailedEncode(r, prop, frames)
	if prop == "C04" {
		registryStateLeg(r, frames)
	} else {
		checksumRegistryLeg(r, "C05")
	}
	r.Sample("sse.SseBinary key 33: [ENC(m0) ENC(m1) SKIP(3) ] cap class -1")
	r.Sample("sample.RootPacket nil body: [JUNK(1) ENC(m1) ENC(m0)] cap class 4096")
	r.Set("bound", map[string]any{"depth": depth, "capacity_classes": 10})
}

func runC06(r *ev.Run, thorough bool) {
	depth := 3
	if thorough {
		depth = 4
	}
	ops := []hOp{{opENC, 0}, {opENC, 1}, {opSKIP, 1}, {opSKIP, 3}, {opJUNK, 0}, {opJUNK, 4}, {opRESET, 0}}
	var scs []*hScenario
	for _, t := range bind.Types {
		scs = append(scs, &hScenario{Name: t.QName(), T: t, Msgs: []*rm.Value{rm.Zero(t), valenum.Distinct(t)}, Ops: ops, Depth: depth, Caps: []int{capZero, capOwned, 1, -117}})
		if di := t.DynField(); di >= 0 && t.Fields[di].Nil == "fill" {
			// encoder fills in the nil extension/body, then the same object is encoded again
			tab := dynTable(t)
			k0, k1 := tab.Order[0], tab.Order[len(tab.Order)-1]
			scs = append(scs, &hScenario{Name: t.QName() + " nil-fill", T: t,
				Msgs: []*rm.Value{valenum.NilDyn(valenum.WithKey(t, k0, "Z")), valenum.NilDyn(valenum.WithKey(t, k1, "D"))}, Ops: ops, Depth: depth, Caps: []int{capZero, capOwned, 1}})
		}
		if di := t.DynField(); di >= 0 && t.Fields[di].Nil == "fill" {
			// two DIFFERENT messages with a nil extension under the SAME key, and the caller writing through the first
			// one's filled-in extension between the encodes: the second message's bytes must not depend on it
			tab := dynTable(t)
			for _, k := range []string{tab.Order[0], tab.Order[len(tab.Order)-1]} {
				scs = append(scs, &hScenario{Name: t.QName() + " nil-fill same key " + k + " with MUT", T: t,
					Msgs: []*rm.Value{valenum.NilDyn(valenum.WithKey(t, k, "Z")), valenum.NilDyn(valenum.WithKey(t, k, "D"))},
					Ops:  []hOp{{opENC, 0}, {opENC, 1}, {opMUT, 0}, {opMUT, 1}, {opRESET, 0}}, Depth: depth + 1, Caps: []int{capZero}})
			}
		}
		// list-bearing types: the long variant, one level deeper
		hasList := false
		for i := range t.Fields {
			if t.Fields[i].Kind == "list" || t.Fields[i].Kind == "lentext" {
				hasList = true
			}
		}
		if hasList {
			scs = append(scs, &hScenario{Name: t.QName() + " long", T: t, Msgs: []*rm.Value{valenum.Long(t), rm.Zero(t)}, Ops: ops, Depth: depth + 1, Caps: []int{capZero, 1}})
		}
	}
	fd := 3
	if thorough {
		fd = 5
	}
	scs = append(scs, frameScenarios(func(t *rm.Type) bool { return true }, fd)...)
	r.Rule = fmt.Sprintf("every type as a single-type scenario (messages Z, D; nil-extension variants, also two messages under the same key with MUT(m) - the caller writing through a filled-in extension - between the encodes, depth+1; long variants) with ALL operation sequences of length <= %d over {ENC(m0),ENC(m1),SKIP(1),SKIP(3),JUNK(1 byte),JUNK(5000 bytes),RESET} x 4 capacity classes, plus all frame scenarios of C04 at depth %d; oracle: after ENC the unread buffer == prior ++ EncodeRef(m), prior bytes identical; same object encoded again gives the same bytes; the V1 repeatability history again for 8 never-seen values per type AFTER A LONG SESSION (5,000 / 70,000 round trips of ever new values per type); distinct = (scenario,capacity,sequence)", depth, fd)
	r.Assume("model transition for ENC is: unread ++= EncodeRef(m)")
	for _, sc := range scs {
		sc.SkipObjectCheck = true
	}
	parScenarios(r, "C06", scs)
	// repeatability over the whole value space V1: the SAME object encoded several times into one buffer
	v1Histories(r, "C06", bind.Types, [][]hOp{{{opJUNK, 0}, {opENC, 0}, {opENC, 0}, {opSKIP, 1}, {opENC, 0}}}, capZero, true, false)
	defer warmHistories(r, "C06", thorough, [][]hOp{{{opJUNK, 0}, {opENC, 0}, {opENC, 0}, {opSKIP, 1}, {opENC, 0}}}, capZero, true)
	// encodes that must fail, followed by valid ones: nothing of the failed attempt may leak into later output
	afterFailedEncode(r, "C06", bind.Types)
	r.Sample("szse.NewOrder nil-fill: [ENC(m0) ENC(m0) SKIP(3)] (encoder materialises the extension, second encode must give the same bytes)")
	r.Set("bound", map[string]any{"depth": depth, "frame_depth": fd})
}

func runC07(r *ev.Run, thorough bool) {
	n := 3
	depth := 3
	if thorough {
		n = 4
		depth = 5
	}
	var mu sync.Mutex
	structured := int64(0)
	parTypes(r, bind.Types, func(t *rm.Type, l *ev.Local) {
		msgs := []*rm.Value{rm.Zero(t), valenum.Distinct(t), valenum.Long(t)}
		if t.DynField() >= 0 {
			tab := dynTable(t)
			msgs = append(msgs, valenum.WithKey(t, tab.Order[len(tab.Order)/2], "D"))
		}
		encD, _ := rm.EncodeBytes(msgs[1])
		js := [][]byte{{0x00}, {0xFF}, {0xAA, 0xAA, 0xAA, 0xAA, 0xAA}}
		if len(encD) > 1 {
			js = append(js, encD[:len(encD)/2]) // a strict prefix of another encoding
		}
		sc := &hScenario{Name: t.QName(), T: t, Msgs: msgs, Junks: js}
		// (ii) structured: every tuple of <= n encodes, optional tail, then as many decodes
		idx := make([]int, 0, n)
		var rec func() bool
		rec = func() bool {
			if len(idx) > 0 {
				for tail := -1; tail < len(js); tail++ {
					var seq []hOp
					for _, i := range idx {
						seq = append(seq, hOp{opENC, i})
					}
					if tail >= 0 {
						seq = append(seq, hOp{opJUNK, tail})
					}
					for range idx {
						seq = append(seq, hOp{opDEC, 0})
					}
					for _, c := range []int{capZero, capOwned} {
						f, steps, key := runHistory(sc, c, seq)
						l.Evals++
						l.Transitions += int64(steps)
						l.Traces++
						l.Keys[ev.H(fmt.Sprint(sc.Name, c, seq))] = struct{}{}
						l.States[key] = struct{}{}
						if f != nil && histRelevant["C07"](f) {
							r.Violate(histViolation("C07", sc, f, c, seq))
							if r.TooMany() {
								return false
							}
						}
					}
				}
			}
			if len(idx) == n {
				return true
			}
			for i := range msgs {
				idx = append(idx, i)
				ok := rec()
				idx = idx[:len(idx)-1]
				if !ok {
					return false
				}
			}
			return true
		}
		rec()
		mu.Lock()
		structured += l.Evals
		mu.Unlock()
		// (iii) unconstrained: all sequences over {ENC(m0),ENC(m1),JUNK(00),JUNK(prefix),DEC,SKIP(1)}
		ops := []hOp{{opENC, 0}, {opENC, 1}, {opJUNK, 0}, {opJUNK, len(js) - 1}, {opDEC, 0}, {opSKIP, 1}}
		sc2 := &hScenario{Name: t.QName() + " free", T: t, Msgs: msgs[:2], Junks: js, Ops: ops, Depth: depth, Caps: []int{capZero}}
		exploreHistories(sc2, l, func(f *hFinding, c int, seq []hOp) bool {
			if histRelevant["C07"](f) {
				r.Violate(histViolation("C07", sc2, f, c, seq))
				return !r.TooMany()
			}
			return true
		})
	})
	defer warmHistories(r, "C07", thorough, [][]hOp{{{opENC, 0}, {opJUNK, 1}, {opDEC, 0}}, {{opJUNK, 2}, {opSKIP, 1}, {opENC, 0}, {opENC, 0}, {opDEC, 0}, {opDEC, 0}}}, capZero, true)
	v1Histories(r, "C07", bind.Types, [][]hOp{{{opENC, 0}, {opJUNK, 1}, {opDEC, 0}}, {{opJUNK, 2}, {opSKIP, 1}, {opENC, 0}, {opENC, 0}, {opDEC, 0}, {opDEC, 0}}}, capZero, true, true)
	r.Rule = fmt.Sprintf("for EVERY canonical value of V1 of every type the histories [ENC JUNK DEC] and [JUNK SKIP ENC ENC DEC DEC], and the same two histories for 8 never-seen values per type AFTER A LONG SESSION (5,000 / 70,000 round trips of ever new values per type); per type: every tuple of <= %d encodes of messages {Z, D, L(300-byte texts, 3-element lists), another registered body} into one buffer, each of 5 tails (none, 00, FF, AAx5, a strict prefix of another encoding), then as many decodes; plus ALL sequences of length <= %d over {ENC,ENC,JUNK,JUNK,DEC,SKIP}; oracle: each decode consumes exactly len(EncodeRef(m)), yields the original value, leaves the remaining bytes identical; distinct = (type,capacity,sequence)", n, depth)
	r.Assume("after a failed decode the model re-synchronises with the real buffer (C07 constrains only successful decodes)")
	r.Sample("sse.SseBinary: [ENC(m1) ENC(m0) ENC(m2) JUNK(3) DEC DEC DEC]")
	r.Set("bound", map[string]any{"max_encodes": n, "free_depth": depth})
}

func runC16(r *ev.Run, thorough bool) {
	depth := 3
	if thorough {
		depth = 5
	}
	ops := []hOp{{opENC, 0}, {opENC, 1}, {opDEC, 0}, {opSCRIBBLE, 0}, {opRESET, 0}, {opMUT, 0}}
	var scs []*hScenario
	for _, t := range bind.Types {
		scs = append(scs, &hScenario{Name: t.QName(), T: t, Msgs: []*rm.Value{valenum.Distinct(t), valenum.Long(t)}, Ops: ops, Depth: depth, Caps: []int{capOwned, capZero}})
	}
	r.Rule = fmt.Sprintf("per type (messages D and L): ALL operation sequences of length <= %d over {ENC(m0),ENC(m1),DEC,SCRIBBLE(overwrite unread bytes, spare capacity and the caller-owned backing array with EE),RESET,MUT(change every scalar, text, list element and nested part of m0 in place)} x {buffer over a caller-owned slice, zero-value buffer}; separation invariant after every op: every decoded message equals its deep snapshot, buffer bytes equal the model; plus the histories [ENC SKIP(3 foreign bytes) DEC SCRIBBLE RESET ENC MUT] over a caller-owned slice and [ENC DEC SCRIBBLE RESET ENC MUT] in a zero-value buffer (SCRIBBLE also overwrites the consumed bytes, through Reset/Write of Cap() bytes) for EVERY canonical value of V1 incl. the complete size sweeps, and again for 8 never-seen values per type AFTER A LONG SESSION (5,000 round trips of ever new values per type; 70,000 in thorough); distinct = (type,capacity,sequence) / (type,value)", depth)
	r.Assume("snapshots are deep copies made through reflection (strings re-allocated)")
	parScenarios(r, "C16", scs)
	// the caller-owned slice starts with 3 foreign bytes: skip them so that DEC decodes the message itself (without the
	// SKIP the decode starts inside those bytes and mostly fails, which made this leg nearly vacuous for list-bearing
	// types); and the same history in a zero-value buffer, where SCRIBBLE overwrites the consumed bytes through Reset/Write
	v1Histories(r, "C16", bind.Types, [][]hOp{{{opENC, 0}, {opSKIP, 3}, {opDEC, 0}, {opSCRIBBLE, 0}, {opRESET, 0}, {opENC, 0}, {opMUT, 0}}}, capOwned, true, true)
	v1Histories(r, "C16", bind.Types, [][]hOp{{{opENC, 0}, {opDEC, 0}, {opSCRIBBLE, 0}, {opRESET, 0}, {opENC, 0}, {opMUT, 0}}}, capZero, true, true)
	warmHistories(r, "C16", thorough, [][]hOp{{{opENC, 0}, {opDEC, 0}, {opSCRIBBLE, 0}, {opRESET, 0}, {opENC, 0}, {opMUT, 0}}}, capZero, true)
	r.Sample("sample.StringPacket: [ENC(m0) DEC SCRIBBLE] over a caller-owned slice: decoded message unchanged")
	r.Set("bound", map[string]any{"depth": depth})
}

// warmSession is a LONG SESSION: every type encodes and decodes n messages whose texts and numbers are all new
// (valenum.Salted), so whatever the library accumulates across calls (an intern table, a cache, a pool, a counter
// that switches a code path) is saturated before the pass that follows. Runs after all cold legs.
func warmSession(r *ev.Run, n int) {
	parTypes(r, bind.Types, func(t *rm.Type, l *ev.Local) {
		for s := 1; s <= n; s++ {
			func() {
				defer func() { recover() }()
				msg := bind.MustReal(valenum.Salted(t, s))
				buf := &bytes.Buffer{}
				if bind.Encode(msg, buf) == nil {
					_ = bind.Decode(bind.New(t), buf)
				}
			}()
			l.Transitions += 2
		}
	})
	r.Set("long_session_warm_up", fmt.Sprintf("%d encode+decode round trips of ever new values per type (%d in total) before the warm pass", n, n*len(bind.Types)))
}

func warmN(thorough bool) int {
	if thorough {
		return 70000
	}
	return 5000
}

// warmHistories: after a long session, the given histories on values the library has not seen before.
func warmHistories(r *ev.Run, prop string, thorough bool, seqs [][]hOp, capClass int, skipObj bool) {
	n := warmN(thorough)
	warmSession(r, n)
	parTypes(r, bind.Types, func(t *rm.Type, l *ev.Local) {
		sc := &hScenario{Name: t.QName() + " after a long session", T: t, SkipObjectCheck: skipObj}
		for s := n + 1; s <= n+8; s++ {
			v := valenum.Salted(t, s)
			if _, err := rm.EncodeBytes(v); err != nil {
				continue
			}
			for si, seq := range seqs {
				sc.Msgs = []*rm.Value{v.Clone()}
				f, steps, key := runHistory(sc, capClass, seq)
				l.Evals++
				l.Transitions += int64(steps)
				l.Traces++
				l.Keys[ev.H(fmt.Sprint(t.QName(), "warm", si, s))] = struct{}{}
				l.States[key] = struct{}{}
				if f != nil && histRelevant[prop](f) {
					v := histViolation(prop, sc, f, capClass, seq)
					v.Detail = fmt.Sprintf("after a session of %d round trips per type, new value (salt %d): ", n, s) + v.Detail
					v.Replay["warm_session"] = n
					r.Violate(v)
					if r.TooMany() {
						return
					}
				}
			}
		}
	})
}

// valenumHuge enlarges the body of a frame value in place; false if the body type cannot exceed 64 KiB.
func valenumHuge(frame *rm.Value) bool {
	body := frame.Fields[frame.Type.DynField()]
	hv, ok := valenum.Huge(body.Type)
	if !ok {
		return false
	}
	*body = *hv
	return true
}

// histSweep: bounds of the complete size sweeps used by the history legs (every prefixed-text length, every list length).
var histSweepText, histSweepList = 2200, 300

// enumV1 enumerates V1 of t (Big alphabets) followed by the complete size sweeps.
func enumV1(t *rm.Type, o valenum.Opts, fn func(c *valenum.Case) bool) {
	stop := false
	o.Combos = true
	valenum.Enum(t, o, func(c *valenum.Case) bool {
		if !fn(c) {
			stop = true
		}
		return !stop
	})
	if stop {
		return
	}
	o.Big, o.Combos, o.SweepText, o.SweepList = false, false, histSweepText, histSweepList
	valenum.Enum(t, o, func(c *valenum.Case) bool {
		if c.NDev == 0 {
			return true
		}
		c.Desc = "size sweep " + c.Desc
		return fn(c)
	})
}

// v1Histories runs one fixed short history on a single message object for EVERY value of V1 of the given types
// (the history explorers above use a few fixed messages per type; this leg covers the value dimension).
func v1Histories(r *ev.Run, prop string, types []*rm.Type, seqs [][]hOp, capClass int, skipObj bool, canonical bool) {
	parTypes(r, types, func(t *rm.Type, l *ev.Local) {
		sc := &hScenario{Name: t.QName() + " v1", T: t, SkipObjectCheck: skipObj}
		enumV1(t, valenum.Opts{K: 1, Big: true, Canonical: canonical}, func(c *valenum.Case) bool {
			if _, err := rm.EncodeBytes(c.V); err != nil {
				return true
			}
			for si, seq := range seqs {
				sc.Msgs = []*rm.Value{c.V.Clone()}
				f, steps, key := runHistory(sc, capClass, seq)
				l.Evals++
				l.Transitions += int64(steps)
				l.Traces++
				l.Keys[ev.H(fmt.Sprint(t.QName(), "v1", si)+c.V.String())] = struct{}{}
				l.States[key] = struct{}{}
				if f != nil && histRelevant[prop](f) {
					v := histViolation(prop, sc, f, capClass, seq)
					v.Detail = "value base " + c.Base + " dev {" + c.Desc + "}: " + v.Detail
					r.Violate(v)
					return !r.TooMany()
				}
			}
			return true
		})
	})
}

// frameBodyHistories: for every frame type and every registered key, every V1 value of the BODY type wrapped in the frame.
func frameBodyHistories(r *ev.Run, prop string, frames []*rm.Type, seqs [][]hOp, caps []int) {
	type job struct {
		t   *rm.Type
		key string
	}
	var jobs []job
	for _, t := range frames {
		for _, k := range dynTable(t).Order {
			jobs = append(jobs, job{t, k})
		}
	}
	ch := make(chan job)
	var wg sync.WaitGroup
	for i := 0; i < runtime.NumCPU(); i++ {
		wg.Add(1)
		go func() {
			defer wg.Done()
			l := ev.NewLocal()
			for j := range ch {
				t := j.t
				bt := t.Proto.Type(dynTable(t).Entries[j.key])
				sc := &hScenario{Name: t.QName() + " key " + j.key + " body-v1", T: t}
				enumV1(bt, valenum.Opts{K: 1, Big: true}, func(c *valenum.Case) bool {
					fv := valenum.Stale(valenum.WithKey(t, j.key, "Z"), 4)
					fv.Fields[t.DynField()] = c.V.Clone()
					if _, err := rm.EncodeBytes(fv); err != nil {
						return true
					}
					for ci, capClass := range caps {
						for si, seq := range seqs {
							if len(caps) == len(seqs) && ci != si {
								continue // paired: sequence i runs in capacity class i
							}
							sc.Msgs = []*rm.Value{fv.Clone()}
							f, steps, key := runHistory(sc, capClass, seq)
							l.Evals++
							l.Transitions += int64(steps)
							l.Traces++
							l.Keys[ev.H(fmt.Sprint(sc.Name, capClass, si)+c.V.String())] = struct{}{}
							l.States[key] = struct{}{}
							if f != nil && histRelevant[prop](f) {
								v := histViolation(prop, sc, f, capClass, seq)
								v.Detail = "body base " + c.Base + " dev {" + c.Desc + "}: " + v.Detail
								r.Violate(v)
								return !r.TooMany()
							}
						}
					}
					return true
				})
			}
			r.Merge(l)
		}()
	}
	for _, j := range jobs {
		ch <- j
	}
	close(ch)
	wg.Wait()
}

// afterFailedEncode: a message the library must refuse (a part too long for its prefix) is encoded first — into the
// same buffer and, separately, into another buffer — and then a valid message: the valid message's bytes must be
// exactly its reference encoding (nothing left over from the failed attempt, in the buffer or anywhere else).
func afterFailedEncode(r *ev.Run, prop string, types []*rm.Type) {
	parTypes(r, types, func(t *rm.Type, l *ev.Local) {
		good := valenum.Distinct(t)
		sc := &hScenario{Name: t.QName() + " after-failed-encode", T: t, SkipObjectCheck: true}
		try := func(bad *rm.Value, desc string) bool {
			for _, seq := range [][]hOp{{{opENC, 0}, {opRESET, 0}, {opENC, 1}, {opENC, 1}}, {{opENC, 1}, {opENC, 0}, {opRESET, 0}, {opENC, 1}}} {
				sc.Msgs = []*rm.Value{bad.Clone(), good.Clone()}
				f, steps, key := runHistory(sc, capZero, seq)
				l.Evals++
				l.Transitions += int64(steps)
				l.Traces++
				l.Keys[ev.H(t.QName()+"afe"+desc+fmt.Sprint(seq))] = struct{}{}
				l.States[key] = struct{}{}
				if f != nil && histRelevant[prop](f) {
					v := histViolation(prop, sc, f, capZero, seq)
					v.Detail = "failing message {" + desc + "}: " + v.Detail
					r.Violate(v)
					return !r.TooMany()
				}
			}
			return true
		}
		valenum.Enum(t, valenum.Opts{K: 1, Over: true, Big: true}, func(c *valenum.Case) bool {
			if _, err := rm.EncodeBytes(c.V); err == nil {
				return true
			}
			return try(c.V, c.Desc)
		})
		// frames: every body type's own over-long values wrapped in the frame
		if t.DynField() >= 0 && dynTable(t).KeyKind != "text" {
			for _, k := range dynTable(t).Order {
				bt := t.Proto.Type(dynTable(t).Entries[k])
				valenum.Enum(bt, valenum.Opts{K: 1, Over: true, Big: true}, func(c *valenum.Case) bool {
					if _, err := rm.EncodeBytes(c.V); err == nil {
						return true
					}
					fv := valenum.WithKey(t, k, "Z")
					fv.Fields[t.DynField()] = c.V.Clone()
					return try(fv, "key "+k+" body "+c.Desc)
				})
			}
		}
	})
}

// registryStateLeg (C04, sequential, after all parallel work): the length field must be right whatever the state of
// the checksum-service registry — with the services removed the frames still carry their body length.
func restoreBuiltins() {
	codec.Clear()
	for _, s := range []any{&codec.Crc16ChecksumService{}, &codec.Crc32ChecksumService{}, &codec.SseBinChecksumService{}, &codec.SzseBinChecksumService{}} {
		codec.Registry(s)
	}
}

// c04RegistryCase: one frame value encoded with the checksum registry cleared; the length must still be right.
func c04RegistryCase(t *rm.Type, v *rm.Value) *ev.Violation {
	defer restoreBuiltins()
	codec.Clear()
	ref, segs, _, err := rm.EncodeRef(v)
	if err != nil {
		return nil
	}
	msg := bind.MustReal(v)
	buf := &bytes.Buffer{}
	buf.Write([]byte{0xAA, 0xBB})
	if e := bind.Encode(msg, buf); e != nil {
		return vio("encode-error-without-checksum-service", t, "", e.Error(), v)
	}
	out := buf.Bytes()[2:]
	got := bind.MustFrom(t, msg)
	for _, sg := range segs {
		if sg.Role != "length" || sg.Off+sg.Len > len(out) {
			continue
		}
		if !bytes.Equal(out[sg.Off:sg.Off+sg.Len], ref[sg.Off:sg.Off+sg.Len]) {
			return vio("length-wrong-without-checksum-service", t, sg.Path, fmt.Sprintf("registry cleared: length on the wire %x, want %x", out[sg.Off:sg.Off+sg.Len], ref[sg.Off:sg.Off+sg.Len]), v)
		}
		fi := t.FieldIndex(strings.TrimPrefix(sg.Path, "."))
		if fi >= 0 && got.Fields[fi].Bits != uint64(len(ref))-uint64(hdrAndTrailer(t, segs)) {
			return vio("object-length-wrong-without-checksum-service", t, sg.Path, fmt.Sprintf("registry cleared: the message object reports %d", got.Fields[fi].Bits), v)
		}
	}
	return nil
}

// checksumRegistryCase: one frame value (stale caller checksum) encoded with the checksum registry cleared. In that
// state the pinned library does not compute a checksum and emits the caller's value, which is outside C05's premise
// (the trailer is not self-computed). What the properties still say: a trailer the library DID compute itself (one
// that differs from the caller's value) must be the algorithm's value over this frame (C05) in the protocol's byte
// order (C03: the algorithm's value in the opposite byte order is reported as such), and the object must report
// what is on the wire.
func checksumRegistryCase(t *rm.Type, v *rm.Value, prop string) *ev.Violation {
	defer restoreBuiltins()
	codec.Clear()
	ref, segs, _, err := rm.EncodeRef(v)
	if err != nil {
		return nil
	}
	msg := bind.MustReal(v)
	buf := &bytes.Buffer{}
	if e := bind.Encode(msg, buf); e != nil {
		return nil // refusing to encode without the service is a legitimate answer
	}
	out := buf.Bytes()
	got := bind.MustFrom(t, msg)
	for _, sg := range segs {
		if sg.Role != "checksum" || sg.Off+sg.Len > len(out) || len(out) != len(ref) {
			continue
		}
		fi := t.FieldIndex(strings.TrimPrefix(sg.Path, "."))
		if fi < 0 {
			continue
		}
		render := func(bits uint64) []byte {
			b := make([]byte, sg.Len)
			for i := 0; i < sg.Len; i++ {
				sh := uint(8 * i)
				if !t.Little() {
					sh = uint(8 * (sg.Len - 1 - i))
				}
				b[i] = byte(bits >> sh)
			}
			return b
		}
		wire := out[sg.Off : sg.Off+sg.Len]
		stale := render(v.Fields[fi].Bits)
		right := ref[sg.Off : sg.Off+sg.Len]
		mk := func(kind, detail string) *ev.Violation {
			vv := vio(kind, t, sg.Path, "registry cleared: "+detail, v)
			vv.Replay["check"] = prop + "reg"
			return vv
		}
		if bytes.Equal(wire, stale) || bytes.Equal(wire, right) {
			if prop == "C05" && !bytes.Equal(render(got.Fields[fi].Bits), wire) {
				return mk("object-checksum-differs-from-wire", fmt.Sprintf("wire %x, the message object reports %#x", wire, got.Fields[fi].Bits))
			}
			continue
		}
		rev := append([]byte{}, right...)
		for i := 0; i < len(rev)/2; i++ {
			rev[i], rev[len(rev)-1-i] = rev[len(rev)-1-i], rev[i]
		}
		if prop == "C03" {
			if bytes.Equal(wire, rev) {
				return mk("wrong-byte-order", fmt.Sprintf("self-computed checksum on the wire %x is the algorithm's value in the opposite byte order (protocol %s-endian: want %x)", wire, t.Order, right))
			}
			continue
		}
		return mk("self-computed-checksum-wrong", fmt.Sprintf("the library replaced the caller's checksum %x by %x, which is not the algorithm's value %x over this frame", stale, wire, right))
	}
	return nil
}

// checksumRegistryLeg (C05, C03; sequential, after all parallel work).
func checksumRegistryLeg(r *ev.Run, prop string) {
	l := ev.NewLocal()
	n := 0
	for _, t := range bind.Types {
		if t.DynField() < 0 {
			continue
		}
		has := false
		for i := range t.Fields {
			if t.Fields[i].Kind == "checksum" {
				has = true
			}
		}
		if !has {
			continue
		}
		tab := dynTable(t)
		for _, k := range tab.Order {
			for _, base := range []string{"Z", "D", "L"} {
				for _, st := range []uint64{4, 0xFFFFFFFF} {
					v := valenum.Stale(valenum.WithKey(t, k, base), st)
					key := ev.H(t.QName() + "reg" + v.String())
					l.Eval(key, true)
					l.States[key] = struct{}{}
					l.Transitions++
					l.Traces++
					n++
					if viol := checksumRegistryCase(t, v, prop); viol != nil {
						r.Violate(viol)
						if r.TooMany() {
							r.Merge(l)
							return
						}
					}
				}
			}
		}
	}
	r.Merge(l)
	r.Set("registry_state_leg", fmt.Sprintf("%d frame values (every registered key x Z/D/L x 2 stale caller checksums) encoded with the checksum registry cleared (sequential): a trailer the library computed itself must be the algorithm's value in the protocol's byte order", n))
}

func registryStateLeg(r *ev.Run, frames []*rm.Type) {
	l := ev.NewLocal()
	for _, t := range frames {
		tab := dynTable(t)
		for _, k := range []string{tab.Order[0], tab.Order[len(tab.Order)-1]} {
			for _, base := range []string{"Z", "D", "L"} {
				v := valenum.Stale(valenum.WithKey(t, k, base), 4)
				l.Evals++
				l.Transitions++
				l.Traces++
				if viol := c04RegistryCase(t, v); viol != nil {
					r.Violate(viol)
				}
			}
		}
	}
	r.Merge(l)
	r.Set("registry_state_leg", "length checked with the checksum registry cleared (sequential)")
}

// hdrAndTrailer: bytes of the frame that are not body (everything outside the dyn part).
func hdrAndTrailer(t *rm.Type, segs []rm.Segment) int {
	n := 0
	for _, sg := range segs {
		if strings.Count(sg.Path, ".") == 1 && !strings.Contains(sg.Path, "[") {
			n += sg.Len
		}
	}
	return n
}
