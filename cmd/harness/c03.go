package main

import (
	"bytes"
	"fmt"

	"verif/engine/bind"
	"verif/engine/ev"
	rm "verif/engine/refmodel"
	"verif/engine/valenum"
)

func init() {
	checks["C03"] = runC03
	caseChecks["C03"] = c03Case
	replayers["prim"] = func(prop string, rp map[string]any) *ev.Violation {
		p := findPrim(rp["prim"].(string))
		v, err := rm.FromJSON(rp["value"], bind.TypeByQName)
		if p == nil || err != nil {
			panic(fmt.Sprint("replay prim: ", err))
		}
		switch prop {
		case "C03":
			return c03Prim(p, v)
		case "C18":
			return c18Prim(p, v)
		}
		return nil
	}
}

func numeric(role string) bool {
	switch role {
	case "int", "float", "count", "textlen", "length", "checksum":
		return true
	}
	return false
}

func reverseSegs(b []byte, segs []rm.Segment) []byte {
	out := append([]byte{}, b...)
	for _, s := range segs {
		if !numeric(s.Role) || s.Off+s.Len > len(out) {
			continue
		}
		for i := 0; i < s.Len/2; i++ {
			out[s.Off+i], out[s.Off+s.Len-1-i] = out[s.Off+s.Len-1-i], out[s.Off+i]
		}
	}
	return out
}

func firstSegDiff(a, b []byte, segs []rm.Segment) string {
	i := 0
	for i < len(a) && i < len(b) && a[i] == b[i] {
		i++
	}
	for _, s := range segs {
		if i >= s.Off && i < s.Off+s.Len {
			if s.Role == "int" || s.Role == "float" {
				return "element"
			}
			return s.Role
		}
	}
	return "other"
}

func c03Prim(p *prim, v *rm.Value) *ev.Violation {
	refBE, segs, err := rm.EncodeField(&p.field, v, false)
	if err != nil {
		return nil
	}
	refLE, _, _ := rm.EncodeField(&p.field, v, true)
	mk := func(kind, role, detail string) *ev.Violation {
		return &ev.Violation{Kind: kind, Subject: p.name + " " + role, Detail: detail, Replay: primReplay(p, v, true)}
	}
	realBE, e1, p1 := callWrite(p, v, false)
	realLE, e2, p2 := callWrite(p, v, true)
	if p1 != nil || p2 != nil || e1 != nil || e2 != nil {
		return mk("write-failed", "", fmt.Sprint(e1, e2, p1, p2))
	}
	if want := reverseSegs(realBE, segs); !bytes.Equal(realLE, want) {
		return mk("le-is-not-be-with-integers-reversed", firstSegDiff(realLE, want, segs), fmt.Sprintf("value %s: BE variant %s, LE variant %s, BE with each integer reversed %s", v, hx(realBE), hx(realLE), hx(want)))
	}
	if !bytes.Equal(realBE, refBE) {
		return mk("be-variant-not-big-endian", firstSegDiff(realBE, refBE, segs), fmt.Sprintf("value %s: wrote %s want %s", v, hx(realBE), hx(refBE)))
	}
	if !bytes.Equal(realLE, refLE) {
		return mk("le-variant-not-little-endian", firstSegDiff(realLE, refLE, segs), fmt.Sprintf("value %s: wrote %s want %s", v, hx(realLE), hx(refLE)))
	}
	for _, le := range []bool{false, true} {
		w := refBE
		if le {
			w = refLE
		}
		got, cons, err, pan := callRead(p, w, le)
		if pan != nil || err != nil {
			return mk("read-failed", fmt.Sprintf("le=%v", le), fmt.Sprintf("reading %s: %v %v", hx(w), err, pan))
		}
		want, _, _ := rm.DecodeField(&p.field, w, le)
		if cons != len(w) || !rm.Equal(got, want) {
			return mk("read-wrong-byte-order", fmt.Sprintf("le=%v", le), fmt.Sprintf("reading %s: got %s (consumed %d) want %s", hx(w), got, cons, want))
		}
	}
	return nil
}

// c03Case: message level — every numeric wire segment named by the layout walk holds its value in the protocol's byte order.
func c03Case(t *rm.Type, v *rm.Value) *ev.Violation {
	ref, segs, _, rerr := rm.EncodeRef(v)
	if rerr != nil {
		return nil
	}
	out, _, err, pan := realEncode(v)
	if err != nil || pan != nil {
		return nil // C17 / C02 territory
	}
	for _, s := range segs {
		if !numeric(s.Role) || s.Len < 2 {
			continue
		}
		if s.Off+s.Len > len(out) {
			break
		}
		if !bytes.Equal(out[s.Off:s.Off+s.Len], ref[s.Off:s.Off+s.Len]) {
			// only a byte-order problem if the bytes are a permutation consistent with the other order
			rev := append([]byte{}, ref[s.Off:s.Off+s.Len]...)
			for i := 0; i < len(rev)/2; i++ {
				rev[i], rev[len(rev)-1-i] = rev[len(rev)-1-i], rev[i]
			}
			if bytes.Equal(out[s.Off:s.Off+s.Len], rev) {
				return vio("wrong-byte-order", t, pathOf(s.Path+":")+" "+s.Role, fmt.Sprintf("%s (%s, protocol %s-endian): wire %s, want %s", s.Path, s.Role, t.Order, hx(out[s.Off:s.Off+s.Len]), hx(ref[s.Off:s.Off+s.Len])), v)
			}
			return nil // a different kind of layout difference: C02 reports it
		}
	}
	return nil
}

func runC03(r *ev.Run, thorough bool) {
	r.Rule = "(a) every BE/LE primitive pair x prefix type {u8,u16,u32,u64} x element type (10 scalar kinds / text) x value alphabet: LE bytes == BE bytes with each integer segment reversed, BE/LE bytes == reference, readers return the value; (b) every message type x V1 (asymmetric numbers, list lengths 1,2,3,255..257): each numeric wire segment named by the schema walk is in the protocol's byte order; (c) every checksummed frame x every key x Z/D/L with the checksum registry cleared: a checksum the library computed itself is not the algorithm's value byte-reversed; distinct = (primitive,value) / (type,value) hashes; non-trivial = has at least one multi-byte number"
	r.Assume("integer segments of a primitive are delimited by its specification (prefix width, element width), not by observing the library")
	l := ev.NewLocal()
	for i := range prims {
		p := &prims[i]
		ms := valenum.FieldMembers(&p.field, valenum.Opts{Big: true})
		for _, v := range ms {
			key := ev.H(p.name + v.String())
			l.Eval(key, true)
			l.States[key] = struct{}{}
			l.Transitions += 4
			l.Traces++
			if viol := c03Prim(p, v); viol != nil {
				r.Violate(viol)
			}
		}
	}
	r.Merge(l)
	r.Set("primitive_instantiations", len(prims))
	r.Sample("BasicTypeList[uint16,uint16] [0xa2b3]: BE 0001a2b3 / LE 0100b3a2")
	parTypes(r, bind.Types, func(t *rm.Type, l *ev.Local) {
		k := 1
		if thorough {
			k = 2
		}
		valenum.Enum(t, valenum.Opts{K: k, Canonical: true, Big: true}, func(c *valenum.Case) bool {
			key := ev.H(t.QName() + c.V.String())
			l.Eval(key, c.Base == "D" || c.NDev > 0)
			l.States[key] = struct{}{}
			l.Transitions++
			l.Traces++
			if viol := c03Case(t, c.V); viol != nil {
				viol.Detail = "base " + c.Base + " dev {" + c.Desc + "}: " + viol.Detail
				r.Violate(viol)
				return !r.TooMany()
			}
			return true
		})
	})
	checksumRegistryLeg(r, "C03")
	r.Set("bound", map[string]any{"k_deviations": k12(thorough), "types": len(bind.Types)})
}

// set by c17_c18.go
var c18Prim func(p *prim, v *rm.Value) *ev.Violation
