// Package valenum is the small-scope value enumerator (DESIGN 3.2): every value
// within <= k deviations from two base values, simplest first.
package valenum

import (
	"fmt"

	rm "verif/engine/refmodel"
)

type Opts struct {
	K         int  // max number of deviating positions
	Canonical bool // only values in C01's canonical domain
	Big       bool // include the 65,535-element / 65,535-byte members (single deviations only)
	Over      bool // include members that overflow their prefix (C17/C18), implies !Canonical
	NilParts  bool // include nil nested pointers and nil bodies (C17)
	// Sweep mode (either > 0): the only deviations are COMPLETE size sweeps — every prefixed-text length 0..SweepText
	// (also as the single element of a text list) and every list length 0..SweepList, each a single deviation from the
	// base.  Closes the gaps between the size windows of the Big alphabets (DESIGN 7).
	Combos    bool // text lists: every pair and triple of element lengths from a size-class alphabet
	SweepText int
	SweepList int
}

func (o Opts) sweep() bool { return o.SweepText > 0 || o.SweepList > 0 }

type alt struct {
	desc  string
	heavy bool
	apply func() func() // applies the deviation, returns undo
}

type position struct {
	path   string
	parent int // index of enclosing structural position, -1 if none
	alts   []alt
}

// Case is one enumerated value.  V is shared and mutated between callbacks: Clone to keep it.
type Case struct {
	V    *rm.Value
	Base string // "Z" or "D"
	Desc string // deviations applied
	NDev int
}

// Enum calls fn for every value of V_k(t).  fn returns false to stop.
func Enum(t *rm.Type, o Opts, fn func(c *Case) bool) {
	for _, base := range []string{"Z", "D"} {
		var v *rm.Value
		if base == "Z" {
			v = rm.Zero(t)
		} else {
			v = Distinct(t)
		}
		if !fn(&Case{V: v, Base: base, Desc: "", NDev: 0}) {
			return
		}
		var ps []position
		collect(v, "", -1, o, &ps, new(int))
		if !enumK(v, base, ps, o, fn) {
			return
		}
	}
}

func enumK(v *rm.Value, base string, ps []position, o Opts, fn func(c *Case) bool) bool {
	// k = 1
	if o.K >= 1 {
		for i := range ps {
			for _, a := range ps[i].alts {
				undo := a.apply()
				ok := fn(&Case{V: v, Base: base, Desc: ps[i].path + "=" + a.desc, NDev: 1})
				undo()
				if !ok {
					return false
				}
			}
		}
	}
	if o.K >= 2 {
		for i := range ps {
			for j := i + 1; j < len(ps); j++ {
				if isAncestor(ps, i, j) {
					continue
				}
				for _, a := range ps[i].alts {
					if a.heavy {
						continue
					}
					u1 := a.apply()
					for _, b := range ps[j].alts {
						if b.heavy {
							continue
						}
						u2 := b.apply()
						ok := fn(&Case{V: v, Base: base, Desc: ps[i].path + "=" + a.desc + ";" + ps[j].path + "=" + b.desc, NDev: 2})
						u2()
						if !ok {
							u1()
							return false
						}
					}
					u1()
				}
			}
		}
	}
	if o.K >= 3 {
		for i := range ps {
			for j := i + 1; j < len(ps); j++ {
				if isAncestor(ps, i, j) {
					continue
				}
				for l := j + 1; l < len(ps); l++ {
					if isAncestor(ps, i, l) || isAncestor(ps, j, l) {
						continue
					}
					for _, a := range ps[i].alts {
						if a.heavy {
							continue
						}
						u1 := a.apply()
						for _, b := range ps[j].alts {
							if b.heavy {
								continue
							}
							u2 := b.apply()
							for _, c := range ps[l].alts {
								if c.heavy {
									continue
								}
								u3 := c.apply()
								ok := fn(&Case{V: v, Base: base, Desc: ps[i].path + "=" + a.desc + ";" + ps[j].path + "=" + b.desc + ";" + ps[l].path + "=" + c.desc, NDev: 3})
								u3()
								if !ok {
									u2()
									u1()
									return false
								}
							}
							u2()
						}
						u1()
					}
				}
			}
		}
	}
	return true
}

// isAncestor: position a is a structural ancestor of position b.
func isAncestor(ps []position, a, b int) bool {
	for p := ps[b].parent; p >= 0; p = ps[p].parent {
		if p == a {
			return true
		}
	}
	return false
}

// NumLeaves counts leaf positions of the D base (used to pick V3-capable types).
func NumLeaves(t *rm.Type) int {
	var ps []position
	collect(Distinct(t), "", -1, Opts{K: 1}, &ps, new(int))
	return len(ps)
}

// ---- the distinct base ----

// Distinct builds base D: every leaf differs, no palindromes, lists of 2, fixed registered key.
func Distinct(t *rm.Type) *rm.Value {
	n := 0
	return distinct(t, &n)
}

func pattern(i int, w int) uint64 {
	base := uint64(0xA1B2C3D4E5F60718)
	x := base + uint64(i)*0x0101010101010101
	return x >> (8 * uint(8-w))
}

func dtext(i, n int) []byte {
	b := make([]byte, n)
	for j := range b {
		b[j] = byte('A' + (i+j*3)%26)
	}
	return b
}

func distinct(t *rm.Type, n *int) *rm.Value {
	v := &rm.Value{K: rm.VStruct, Type: t, Fields: make([]*rm.Value, len(t.Fields))}
	for i := range t.Fields {
		v.Fields[i] = distinctField(t, &t.Fields[i], n)
	}
	if di := t.DynField(); di >= 0 {
		f := &t.Fields[di]
		tab := t.Proto.Table(f.Factory)
		k := richestKey(t.Proto, tab)
		rm.SetDyn(v, k, distinct(t.Proto.Type(tab.Entries[k]), n))
	}
	return v
}

func distinctField(t *rm.Type, f *rm.Field, n *int) *rm.Value {
	switch f.Kind {
	case "fixtext":
		*n++
		l := f.Width - 1
		if l < 1 {
			l = f.Width
		}
		return rm.Text(dtext(*n, l))
	case "lentext":
		*n++
		return rm.Text(append([]byte("dyn"), dtext(*n, 4)...))
	case "list":
		first, second := distinctField(t, f.Elem, n), distinctField(t, f.Elem, n)
		if f.Elem.Kind == "fixtext" && len(second.Text) > 1 {
			second.Text = second.Text[:1] // a shorter element after a longer one
		}
		return rm.List(first, second)
	case "struct":
		return distinct(t.Proto.Type(f.Type), n)
	case "dyn":
		return rm.NilStruct() // set by caller
	case "length", "checksum":
		return rm.Scalar(0)
	default:
		*n++
		return rm.Scalar(pattern(*n, rm.ScalarWidth(f.Kind)))
	}
}

// ---- positions and alphabets ----

func replace(node *rm.Value, nv *rm.Value) func() func() {
	return func() func() {
		old := *node
		*node = *nv.Clone()
		return func() { *node = old }
	}
}

func collect(v *rm.Value, path string, parent int, o Opts, ps *[]position, leaf *int) {
	t := v.Type
	di := t.DynField()
	keyIdx := -1
	if di >= 0 {
		keyIdx = t.FieldIndex(t.Fields[di].Key)
	}
	for i := range t.Fields {
		f := &t.Fields[i]
		node := v.Fields[i]
		p := path + "." + f.Name
		if i == keyIdx {
			continue // driven by the dyn position
		}
		switch f.Kind {
		case "struct":
			me := parent
			if f.Ptr && o.NilParts {
				*ps = append(*ps, position{path: p, parent: parent, alts: []alt{{desc: "nil", apply: replace(node, rm.NilStruct())}}})
				me = len(*ps) - 1
			}
			collect(node, p, me, o, ps, leaf)
		case "dyn":
			tab := t.Proto.Table(f.Factory)
			keyNode := v.Fields[keyIdx]
			var alts []alt
			for _, k := range tab.Order {
				if o.sweep() {
					break // sweeps keep the base key; every body type is swept as a type of its own
				}
				bt := t.Proto.Type(tab.Entries[k])
				for _, bb := range []string{"Z", "D"} {
					var body *rm.Value
					if bb == "Z" {
						body = rm.Zero(bt)
					} else {
						body = Distinct(bt)
					}
					kv := rm.KeyValue(tab, k)
					if rm.Equal(body, node) && rm.Equal(kv, keyNode) {
						continue
					}
					alts = append(alts, alt{desc: fmt.Sprintf("key %s body %s(%s)", k, bt.Name, bb), apply: func() func() {
						o1, o2 := *node, *keyNode
						*node, *keyNode = *body.Clone(), *kv.Clone()
						return func() { *node, *keyNode = o1, o2 }
					}})
				}
				if o.NilParts {
					kv := rm.KeyValue(tab, k)
					alts = append(alts, alt{desc: fmt.Sprintf("key %s nil body", k), apply: func() func() {
						o1, o2 := *node, *keyNode
						*node, *keyNode = *rm.NilStruct(), *kv.Clone()
						return func() { *node, *keyNode = o1, o2 }
					}})
				}
			}
			*ps = append(*ps, position{path: p, parent: parent, alts: alts})
			me := len(*ps) - 1
			if !node.Nil {
				collect(node, p, me, o, ps, leaf)
			}
		case "list":
			*leaf++
			*ps = append(*ps, position{path: p, parent: parent, alts: listAlts(t, f, node, o, *leaf)})
			me := len(*ps) - 1
			if f.Elem.Kind == "struct" {
				for j, e := range node.Elems {
					collect(e, fmt.Sprintf("%s[%d]", p, j), me, o, ps, leaf)
				}
			}
		default:
			*leaf++
			var alts []alt
			if o.sweep() {
				if f.Kind == "lentext" {
					lf := *leaf
					for l := 0; l <= o.SweepText && uint64(l) <= rm.MaxOf(f.Prefix); l++ {
						l := l
						alts = append(alts, alt{desc: fmt.Sprintf("len %d", l), heavy: true, apply: func() func() { return replace(node, rm.Text(rolling(lf, l)))() }})
					}
				}
				*ps = append(*ps, position{path: p, parent: parent, alts: alts})
				continue
			}
			for _, m := range leafAlphabet(f, o, *leaf) {
				if rm.Equal(m.v, node) {
					continue
				}
				alts = append(alts, alt{desc: m.desc, heavy: m.heavy, apply: replace(node, m.v)})
			}
			*ps = append(*ps, position{path: p, parent: parent, alts: alts})
		}
	}
}

type member struct {
	desc  string
	v     *rm.Value
	heavy bool
}

// ScalarAlphabet: the bit patterns tried for a numeric leaf of the given kind.
func ScalarAlphabet(kind string) []uint64 {
	w := rm.ScalarWidth(kind)
	mask := rm.MaxOf("u" + kind[1:])
	if rm.IsFloat(kind) {
		if w == 4 {
			return []uint64{0, 0x80000000, 0x3F800000, 0xBFC00000, 0x7F800000, 0x7FC00123, 0x7F800001, 0x00000001, 0x01020304}
		}
		return []uint64{0, 0x8000000000000000, 0x3FF0000000000000, 0xBFF8000000000000, 0x7FF0000000000000, 0x7FF8000000000123, 0x7FF0000000000001, 0x0000000000000001, 0x0102030405060708}
	}
	hi := uint64(1) << (8*uint(w) - 1)
	asym := uint64(0x0102030405060708) >> (8 * uint(8-w))
	return []uint64{0, 1, mask, hi, hi - 1, asym, 0xFF & mask, 0x100 & mask}
}

func leafAlphabet(f *rm.Field, o Opts, leaf int) []member {
	var out []member
	switch f.Kind {
	case "fixtext":
		for _, s := range FixTextAlphabet(f, o) {
			out = append(out, member{desc: fmt.Sprintf("%q", clip(s)), v: rm.Text(s)})
		}
	case "lentext":
		for _, m := range lenTextAlphabet(f, o, leaf) {
			out = append(out, m)
		}
	case "length", "checksum":
		for _, b := range []uint64{4, rm.MaxOf("u" + f.Scalar[1:])} {
			out = append(out, member{desc: fmt.Sprintf("stale %#x", b), v: rm.Scalar(b)})
		}
	default:
		seen := map[uint64]bool{}
		for _, b := range ScalarAlphabet(f.Kind) {
			if seen[b] {
				continue
			}
			seen[b] = true
			out = append(out, member{desc: fmt.Sprintf("%#x", b), v: rm.Scalar(b)})
		}
	}
	return out
}

func clip(s []byte) []byte {
	if len(s) > 20 {
		return append(append([]byte{}, s[:20]...), fmt.Sprintf("..(%d)", len(s))...)
	}
	return s
}

// IsCanonicalText: fits the width and has no pad byte at the pad side.
func IsCanonicalText(s []byte, f *rm.Field) bool {
	if len(s) > f.Width {
		return false
	}
	if len(s) == 0 {
		return true
	}
	if f.Left {
		return s[0] != byte(f.Pad)
	}
	return s[len(s)-1] != byte(f.Pad)
}

// FixTextAlphabet: members for a fixed-width text leaf.
func FixTextAlphabet(f *rm.Field, o Opts) [][]byte {
	n, pad := f.Width, byte(f.Pad)
	other := byte('x')
	var c [][]byte
	add := func(b []byte) { c = append(c, b) }
	add([]byte{})
	add([]byte{'a'})
	if n >= 2 {
		add(dtext(7, n-1))
	}
	add(dtext(11, n)) // exactly N distinct bytes
	if n >= 3 {
		add([]byte{other, pad, other}) // interior pad byte
	}
	if n >= 2 {
		if f.Left {
			add([]byte{other, pad}) // pad byte on the non-pad side
		} else {
			add([]byte{pad, other})
		}
	}
	add([]byte{0x00})
	add([]byte{0x20})
	add([]byte{0x30})
	if n >= 2 {
		add([]byte{0xFF, 0xFE})
		add([]byte{0xE4, 0xB8}) // truncated multi-byte rune
	}
	add([]byte{0x80})
	if n >= 3 {
		add([]byte{0xE4, 0xB8, 0xAD}) // one valid 3-byte character: byte length and character count differ
	}
	if n >= 2 {
		add([]byte{0xC3, 0xA9})
		add([]byte{' ', 'a'})
		add([]byte{'a', ' '})
		add([]byte{0, 'a'})
		add([]byte{'a', 0})
	}
	// bytes that are bit-neighbours of the pad byte (pad^1, pad^0x80, pad+1, pad-1), next to a pad byte: trimming done
	// with word-at-a-time / arithmetic tricks confuses exactly these with the pad
	for _, nb := range []byte{pad ^ 1, pad ^ 0x80, pad + 1, pad - 1} {
		add([]byte{nb})
		if n >= 2 {
			add([]byte{pad, nb})
			add([]byte{nb, pad})
		}
		if n >= 3 {
			add([]byte{other, pad, nb})
			add([]byte{nb, pad, other})
		}
		if n >= 4 {
			add([]byte{other, pad, nb, nb})
		}
	}
	// non-canonical members
	add(dtext(3, n+1))
	add(append(dtext(5, n+2), 0xE4, 0xB8, 0xAD)) // N+5, cutting may split a rune
	if n >= 1 {
		add(append(dtext(9, n-1), 0xE4, 0xB8, 0xAD)) // the cut falls inside a multi-byte rune (byte N is a continuation byte)
	}
	if n >= 2 {
		add(append(dtext(13, n-2), 0xE4, 0xB8, 0xAD)) // the cut falls before the rune's last byte
	}
	if n >= 2 {
		if f.Left {
			add([]byte{pad, other})
		} else {
			add([]byte{other, pad})
		}
	}
	allpad := make([]byte, n)
	for i := range allpad {
		allpad[i] = pad
	}
	add(allpad)
	add([]byte{pad})
	var out [][]byte
	seen := map[string]bool{}
	for _, s := range c {
		if seen[string(s)] {
			continue
		}
		seen[string(s)] = true
		if o.Canonical && !IsCanonicalText(s, f) {
			continue
		}
		out = append(out, s)
	}
	return out
}

func rolling(seed, n int) []byte {
	b := make([]byte, n)
	for i := range b {
		b[i] = byte(0x21 + (seed+i*7)%90)
	}
	return b
}

func lenTextAlphabet(f *rm.Field, o Opts, leaf int) []member {
	var out []member
	max := rm.MaxOf(f.Prefix)
	lens := []int{0, 1, 2, 255, 256, 257}
	for _, l := range lens {
		if uint64(l) > max && !o.Over {
			continue
		}
		out = append(out, member{desc: fmt.Sprintf("len %d", l), v: rm.Text(rolling(leaf, l))})
	}
	if o.Big { // every length 3..40 and windows around 128, 256, 512, 1024 plus a few block sizes
		var ls []int
		for l := 3; l <= 40; l++ {
			ls = append(ls, l)
		}
		for _, c := range []int{128, 256, 512, 1024} {
			for l := c - 8; l <= c+8; l++ {
				if l != 255 && l != 256 && l != 257 {
					ls = append(ls, l)
				}
			}
		}
		ls = append(ls, 100, 600, 1000)
		for _, c := range []int{64, 2048, 4096, 8192, 16384, 32768} { // every power of two up to the 16-bit limit, +-1
			ls = append(ls, c-1, c, c+1)
		}
		for _, l := range ls {
			if uint64(l) <= max {
				out = append(out, member{desc: fmt.Sprintf("len %d", l), v: rm.Text(rolling(leaf, l)), heavy: true})
			}
		}
	}
	if o.Big {
		if max >= 65535 {
			out = append(out, member{desc: "len 65535", v: rm.Text(rolling(leaf, 65535)), heavy: true})
		}
		if max > 65535 {
			out = append(out, member{desc: "len 65536", v: rm.Text(rolling(leaf, 65536)), heavy: true})
			out = append(out, member{desc: "len 70000", v: rm.Text(rolling(leaf, 70000)), heavy: true})
		}
	}
	if o.Over && max == 65535 {
		out = append(out, member{desc: "len 65536", v: rm.Text(rolling(leaf, 65536)), heavy: true})
		out = append(out, member{desc: "len 65537", v: rm.Text(rolling(leaf, 65537)), heavy: true})
		mb := make([]byte, 0, 90000)
		for i := 0; i < 30000; i++ {
			mb = append(mb, 0xE6, 0x8B, 0x92)
		}
		out = append(out, member{desc: "30000 three-byte runes (90000 bytes)", v: rm.Text(mb), heavy: true})
	}
	for _, s := range [][]byte{{0}, {0xFF, 0xFE}, {0x80}, {' '}, {' ', ' '}, {'0'}, {0xE4, 0xB8, 0xAD}, {'a', 0xE4, 0xB8, 0xAD, 'b'}, {0xC3, 0xA9}, {0xF0, 0x9F, 0x98, 0x80}} {
		out = append(out, member{desc: fmt.Sprintf("%q", s), v: rm.Text(s)})
	}
	return out
}

// elemValue builds element j of a list of n for a non-struct element kind.
func elemValue(e *rm.Field, leaf, j int) *rm.Value {
	switch e.Kind {
	case "fixtext":
		// element lengths shrink along the list (W-1, 1, 0, W-1, ...): state carried from one element to the next shows
		l := e.Width - 1
		if l < 1 {
			l = e.Width
		}
		switch j % 3 {
		case 1:
			if l > 1 {
				l = 1
			}
		case 2:
			l = 0
		}
		return rm.Text(dtext(leaf+j*5, l))
	case "lentext":
		return rm.Text(rolling(leaf+j, 1+j%4))
	default:
		return rm.Scalar(pattern(leaf+j, rm.ScalarWidth(e.Kind)))
	}
}

func listAlts(t *rm.Type, f *rm.Field, node *rm.Value, o Opts, leaf int) []alt {
	var ms []member
	max := rm.MaxOf(f.Count)
	mk := func(n int) *rm.Value {
		l := &rm.Value{K: rm.VList, Elems: make([]*rm.Value, n)}
		for j := 0; j < n; j++ {
			if f.Elem.Kind == "struct" {
				et := t.Proto.Type(f.Elem.Type)
				if n > 8 {
					l.Elems[j] = rm.Zero(et)
					// index-dependent perturbation of the first scalar leaf
					for x := range et.Fields {
						if rm.IsScalar(et.Fields[x].Kind) {
							l.Elems[j].Fields[x].Bits = uint64(j) & rm.MaxOf("u"+et.Fields[x].Kind[1:])
							break
						}
					}
				} else if j%2 == 0 {
					l.Elems[j] = Distinct(et)
				} else {
					l.Elems[j] = rm.Zero(et)
				}
			} else {
				l.Elems[j] = elemValue(f.Elem, leaf, j)
			}
		}
		return l
	}
	if o.sweep() {
		var alts []alt
		for n := 0; n <= o.SweepList && uint64(n) <= max; n++ {
			n := n
			alts = append(alts, alt{desc: fmt.Sprintf("n=%d", n), heavy: true, apply: func() func() { return replace(node, mk(n))() }})
		}
		if f.Elem.Kind == "lentext" {
			for l := 0; l <= o.SweepText && uint64(l) <= rm.MaxOf(f.Elem.Prefix); l++ {
				l := l
				alts = append(alts, alt{desc: fmt.Sprintf("[len %d]", l), heavy: true, apply: func() func() { return replace(node, rm.List(rm.Text(rolling(leaf, l))))() }})
				alts = append(alts, alt{desc: fmt.Sprintf("[x, len %d, y]", l), heavy: true, apply: func() func() {
					return replace(node, rm.List(rm.Text([]byte("x")), rm.Text(rolling(leaf+1, l)), rm.Text([]byte("y"))))()
				}})
			}
		}
		return alts
	}
	ms = append(ms, member{desc: "nil", v: rm.NilList()})
	ms = append(ms, member{desc: "empty", v: &rm.Value{K: rm.VList, Elems: []*rm.Value{}}})
	for _, n := range []int{1, 2, 3} {
		ms = append(ms, member{desc: fmt.Sprintf("n=%d", n), v: mk(n)})
	}
	// runs of EQUAL adjacent elements (a reader that shortcuts "same as the previous element")
	if f.Elem.Kind == "fixtext" || f.Elem.Kind == "lentext" {
		for _, e := range [][]byte{{'k'}, {'k', 'v'}} {
			if f.Elem.Kind == "fixtext" && len(e) > f.Elem.Width {
				continue
			}
			ms = append(ms, member{desc: fmt.Sprintf("[%q x2]", e), v: rm.List(rm.Text(e), rm.Text(e))})
			ms = append(ms, member{desc: fmt.Sprintf("[x, %q x3]", e), v: rm.List(rm.Text([]byte{'x'}), rm.Text(e), rm.Text(e), rm.Text(e))})
		}
	} else if f.Elem.Kind != "struct" {
		e := pattern(leaf, rm.ScalarWidth(f.Elem.Kind))
		ms = append(ms, member{desc: "[e x3]", v: rm.List(rm.Scalar(e), rm.Scalar(e), rm.Scalar(e))})
	}
	for _, n := range []int{255, 256, 257} {
		if uint64(n) > max && !o.Over {
			continue
		}
		ms = append(ms, member{desc: fmt.Sprintf("n=%d", n), v: mk(n), heavy: true})
	}
	// a few mid-range lengths (round decimal and binary block sizes): implementations that work in blocks
	// tend to go wrong exactly at a multiple of their block size
	// every length 4..64 and a few mid-range / block-size lengths: the encoded size sweeps across the small buffer
	// capacities and reservation sizes (64, 128, 256, 512 bytes) for every element width, and implementations that
	// work in blocks go wrong exactly at a multiple of their block size
	if o.Big {
		var ns []int
		for n := 4; n <= 64; n++ {
			ns = append(ns, n)
		}
		ns = append(ns, 100, 127, 128, 129, 1000, 1024, 4096)
		for _, n := range ns {
			if uint64(n) > max {
				continue
			}
			ms = append(ms, member{desc: fmt.Sprintf("n=%d", n), v: mk(n), heavy: true})
		}
	}
	if o.Big && max >= 65535 {
		ms = append(ms, member{desc: "n=65535", v: mk(65535), heavy: true})
		if max > 65535 {
			ms = append(ms, member{desc: "n=65536", v: mk(65536), heavy: true})
			ms = append(ms, member{desc: "n=70000", v: mk(70000), heavy: true})
		}
	}
	if o.Over && max == 65535 {
		ms = append(ms, member{desc: "n=65536", v: mk(65536), heavy: true})
	}
	// lists of prefixed texts: EVERY pair and triple of element lengths from a size-class alphabet (state carried from
	// one element to the next — a scratch area sized by an earlier element — shows only for particular length orders)
	if o.Combos && f.Elem.Kind == "lentext" {
		var cls []int
		for _, c := range []int{0, 1, 2, 63, 64, 65, 70, 100, 127, 128, 129, 255, 256, 257, 300, 1000, 4097} {
			if uint64(c) <= rm.MaxOf(f.Elem.Prefix) {
				cls = append(cls, c)
			}
		}
		tx := func(j, n int) *rm.Value { return rm.Text(rolling(leaf+j*11, n)) }
		for _, a := range cls {
			for _, b := range cls {
				ms = append(ms, member{desc: fmt.Sprintf("[len %d, len %d]", a, b), v: rm.List(tx(0, a), tx(1, b)), heavy: true})
				for _, c := range cls {
					if a == b && b == c {
						continue
					}
					ms = append(ms, member{desc: fmt.Sprintf("[len %d, len %d, len %d]", a, b, c), v: rm.List(tx(0, a), tx(1, b), tx(2, c)), heavy: true})
				}
			}
		}
	}
	// text lists whose encoding crosses 0.5, 1, 2 and 4 MiB (n elements of 60,000 bytes): readers that gather a list
	// into one slab or page have a budget somewhere
	if o.Combos && f.Elem.Kind == "lentext" && rm.MaxOf(f.Elem.Prefix) >= 60000 {
		for _, n := range []int{9, 18, 35, 70} {
			l := &rm.Value{K: rm.VList, Elems: make([]*rm.Value, n)}
			for j := range l.Elems {
				l.Elems[j] = rm.Text(rolling(leaf+j, 60000-j))
			}
			ms = append(ms, member{desc: fmt.Sprintf("%d texts of ~60000 bytes", n), v: l, heavy: true})
		}
	}
	// every element-alphabet member at length 1
	if f.Elem.Kind != "struct" {
		for _, m := range leafAlphabet(f.Elem, o, leaf) {
			ms = append(ms, member{desc: "[" + m.desc + "]", v: rm.List(m.v), heavy: m.heavy})
		}
	} else {
		et := t.Proto.Type(f.Elem.Type)
		ms = append(ms, member{desc: "[Z]", v: rm.List(rm.Zero(et))})
	}
	var alts []alt
	for _, m := range ms {
		if sameList(m.v, node) {
			continue
		}
		alts = append(alts, alt{desc: m.desc, heavy: m.heavy, apply: replace(node, m.v)})
	}
	return alts
}

func sameList(a, b *rm.Value) bool {
	return a.Nil == b.Nil && (a.Elems == nil) == (b.Elems == nil) && rm.Equal(a, b)
}

// FieldMembers returns the alphabet of a stand-alone non-struct field (leaf or list).
func FieldMembers(f *rm.Field, o Opts) []*rm.Value {
	var out []*rm.Value
	if f.Kind == "list" {
		node := &rm.Value{K: rm.VList, Nil: true, Elems: nil}
		out = append(out, rm.NilList())
		for _, a := range listAlts(nil, f, node, o, 1) {
			undo := a.apply()
			out = append(out, node.Clone())
			undo()
		}
		return out
	}
	for _, m := range leafAlphabet(f, o, 1) {
		out = append(out, m.v)
	}
	return out
}

// Long builds a variable-length-heavy variant of base D: every prefixed text is
// 300 bytes (forces buffer growth between a placeholder and its patch), every list has 3 elements.
func Long(t *rm.Type) *rm.Value {
	v := Distinct(t)
	n := 0
	longify(v, &n)
	return v
}

func longify(v *rm.Value, n *int) {
	t := v.Type
	for i := range t.Fields {
		f := &t.Fields[i]
		*n++
		switch f.Kind {
		case "lentext":
			v.Fields[i] = rm.Text(rolling(*n, 300))
		case "list":
			l := &rm.Value{K: rm.VList}
			for j := 0; j < 3; j++ {
				if f.Elem.Kind == "struct" {
					e := Distinct(t.Proto.Type(f.Elem.Type))
					longify(e, n)
					l.Elems = append(l.Elems, e)
				} else if f.Elem.Kind == "lentext" {
					l.Elems = append(l.Elems, rm.Text(rolling(*n+j, 40+j)))
				} else {
					l.Elems = append(l.Elems, elemValue(f.Elem, *n, j))
				}
			}
			v.Fields[i] = l
		case "struct", "dyn":
			if !v.Fields[i].Nil {
				longify(v.Fields[i], n)
			}
		}
	}
}

// WithKey builds a frame / extended message of type t whose dyn part is the body registered for key, at base "Z", "D" or "L".
func WithKey(t *rm.Type, key, base string) *rm.Value {
	var v *rm.Value
	if base == "Z" {
		v = rm.Zero(t)
	} else {
		v = Distinct(t)
	}
	f := &t.Fields[t.DynField()]
	tab := t.Proto.Table(f.Factory)
	bt := t.Proto.Type(tab.Entries[key])
	var body *rm.Value
	switch base {
	case "Z":
		body = rm.Zero(bt)
	case "L":
		body = Long(bt)
	default:
		body = Distinct(bt)
	}
	rm.SetDyn(v, key, body)
	return v
}

// Stale sets every self-computed field of v to a stale caller value.
func Stale(v *rm.Value, bits uint64) *rm.Value {
	c := v.Clone()
	for i := range c.Type.Fields {
		f := &c.Type.Fields[i]
		if f.Kind == "length" || f.Kind == "checksum" {
			c.Fields[i] = rm.Scalar(bits & rm.MaxOf("u"+f.Scalar[1:]))
		}
	}
	return c
}

// NilDyn returns v with its dyn part absent (key kept).
func NilDyn(v *rm.Value) *rm.Value {
	c := v.Clone()
	c.Fields[c.Type.DynField()] = rm.NilStruct()
	return c
}

// Huge builds a variant of base D whose encoding exceeds 65,536 bytes where the type allows it
// (a 32-bit-prefixed text of 70,000 bytes, or a list of 20,000 elements); ok=false if no field can grow that far.
func Huge(t *rm.Type) (*rm.Value, bool) {
	v := Distinct(t)
	return v, hugeify(v)
}

func hugeify(v *rm.Value) bool {
	t := v.Type
	for i := range t.Fields {
		f := &t.Fields[i]
		switch f.Kind {
		case "lentext":
			if rm.MaxOf(f.Prefix) >= 70000 {
				v.Fields[i] = rm.Text(rolling(i, 70000))
				return true
			}
		case "list":
			if rm.MaxOf(f.Count) >= 20000 {
				l := &rm.Value{K: rm.VList}
				for j := 0; j < 20000; j++ {
					if f.Elem.Kind == "struct" {
						l.Elems = append(l.Elems, rm.Zero(t.Proto.Type(f.Elem.Type)))
					} else if f.Elem.Kind == "lentext" {
						l.Elems = append(l.Elems, rm.Text(rolling(j, 3)))
					} else {
						l.Elems = append(l.Elems, elemValue(f.Elem, i, j))
					}
				}
				v.Fields[i] = l
				return true
			}
		case "struct", "dyn":
			if !v.Fields[i].Nil && hugeify(v.Fields[i]) {
				return true
			}
		}
	}
	return false
}

// richestKey picks the registered key whose body type has the most fields (ties: the later registration),
// so that base D carries as much body structure as the table offers.
func richestKey(p *rm.Proto, tab *rm.Table) string {
	best, bestN := tab.Order[len(tab.Order)-1], -1
	for _, k := range tab.Order {
		if n := fieldCount(p, p.Type(tab.Entries[k]), 0); n >= bestN {
			best, bestN = k, n
		}
	}
	return best
}

func fieldCount(p *rm.Proto, t *rm.Type, depth int) int {
	if depth > 4 {
		return 0
	}
	n := 0
	for i := range t.Fields {
		f := &t.Fields[i]
		n++
		switch f.Kind {
		case "struct":
			n += fieldCount(p, p.Type(f.Type), depth+1)
		case "list":
			n += 2
			if f.Elem.Kind == "struct" {
				n += fieldCount(p, p.Type(f.Elem.Type), depth+1)
			}
		case "dyn":
			n += 3
		}
	}
	return n
}

// Mixed builds base D with its FIRST length-prefixed text (searching nested parts and list elements) replaced by a
// 600-byte text, everything else as in D: a long value followed by short ones inside one message. ok=false if
// the type has no length-prefixed text.
func Mixed(t *rm.Type) (*rm.Value, bool) {
	v := Distinct(t)
	return v, mixFirst(v)
}

func mixFirst(v *rm.Value) bool {
	t := v.Type
	for i := range t.Fields {
		f := &t.Fields[i]
		switch f.Kind {
		case "lentext":
			if rm.MaxOf(f.Prefix) >= 600 {
				v.Fields[i] = rm.Text(rolling(i, 600))
				return true
			}
		case "list":
			if f.Elem.Kind == "lentext" && rm.MaxOf(f.Elem.Prefix) >= 600 && len(v.Fields[i].Elems) > 0 {
				v.Fields[i].Elems[0] = rm.Text(rolling(i, 600))
				return true
			}
			if f.Elem.Kind == "struct" {
				for _, e := range v.Fields[i].Elems {
					if mixFirst(e) {
						return true
					}
				}
			}
		case "struct", "dyn":
			if !v.Fields[i].Nil && mixFirst(v.Fields[i]) {
				return true
			}
		}
	}
	return false
}

// MapTexts returns a copy of v in which every text leaf (fixed-width and length-prefixed, scalar and list element;
// discriminator key fields excluded) is replaced by fn(field, text).
func MapTexts(v *rm.Value, fn func(f *rm.Field, txt []byte) []byte) *rm.Value {
	c := v.Clone()
	mapTexts(c, fn)
	return c
}

func mapTexts(v *rm.Value, fn func(f *rm.Field, txt []byte) []byte) {
	if v == nil || v.Nil || v.Type == nil {
		return
	}
	t := v.Type
	keyIdx := -1
	if di := t.DynField(); di >= 0 {
		keyIdx = t.FieldIndex(t.Fields[di].Key)
	}
	for i := range t.Fields {
		if i == keyIdx {
			continue
		}
		f := &t.Fields[i]
		node := v.Fields[i]
		switch f.Kind {
		case "fixtext", "lentext":
			node.Text = fn(f, node.Text)
		case "list":
			for _, e := range node.Elems {
				switch f.Elem.Kind {
				case "fixtext", "lentext":
					e.Text = fn(f.Elem, e.Text)
				case "struct":
					mapTexts(e, fn)
				}
			}
		case "struct", "dyn":
			mapTexts(node, fn)
		}
	}
}

// Salted builds the D base with every text leaf made unique to salt (lower-case base-26 digits of salt written over
// the start of the text, least significant first — never a pad character, so the value stays canonical) and every
// scalar leaf perturbed by salt: a session of Salted(t,1), Salted(t,2), ... presents the library with ever new values.
func Salted(t *rm.Type, salt int) *rm.Value {
	v := MapTexts(Distinct(t), func(f *rm.Field, txt []byte) []byte {
		out := append([]byte{}, txt...)
		s := salt
		for j := 0; j < len(out) && j < 6; j++ {
			out[j] = byte('a' + s%26)
			s /= 26
		}
		return out
	})
	return v
}
