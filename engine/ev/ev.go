// Package ev collects coverage counters, writes evidence files and replay
// artefacts, prints VIOLATION / KNOWN-FINDING lines and decides the exit code.
package ev

import (
	"encoding/json"
	"fmt"
	"hash/fnv"
	"os"
	"path/filepath"
	"regexp"
	"sort"
	"strconv"
	"strings"
	"sync"
	"time"
)

var Root = func() string {
	if r := os.Getenv("VERIF_ROOT"); r != "" {
		return r
	}
	return "/verif"
}()

type Violation struct {
	Property string         `json:"property"`
	Kind     string         `json:"kind"`    // short machine-readable class, matched against known findings
	Subject  string         `json:"subject"` // type / primitive / scenario
	Detail   string         `json:"detail"`  // human-readable
	Replay   map[string]any `json:"replay"`  // everything needed to re-execute
	Path     string         `json:"-"`
	Known    string         `json:"known,omitempty"`
}

type Run struct {
	mu               sync.Mutex
	Property         string
	Tier             string
	Seed             int64
	start            time.Time
	Evaluations      int64
	distinct         map[uint64]struct{}
	States           map[uint64]struct{}
	Transitions      int64
	Traces           int64
	Samples          []any
	Rule             string
	Exhaustive       bool
	Caps             []string
	Extra            map[string]any
	Assumptions      []string
	violations       []*Violation
	knownHits        map[string]int
	known            []knownFinding
	maxViolation     int
	distinctOverride int64
	outcomes         map[string]map[string]struct{}
}

type knownFinding struct {
	Status   string `json:"status"` // open | fixed
	Property string `json:"property"`
	Kind     string `json:"kind"`
	Subject  string `json:"subject"` // regexp on Violation.Subject
	What     string `json:"what"`
	Commit   string `json:"commit,omitempty"`
	re       *regexp.Regexp
}

func NewRun(property, tier string) *Run {
	seed, _ := strconv.ParseInt(os.Getenv("VERIF_SEED"), 10, 64)
	r := &Run{Property: property, Tier: tier, Seed: seed, start: time.Now(),
		distinct: map[uint64]struct{}{}, States: map[uint64]struct{}{}, Extra: map[string]any{},
		Exhaustive: true, knownHits: map[string]int{}, maxViolation: 20, outcomes: map[string]map[string]struct{}{}}
	r.loadKnown()
	return r
}

func (r *Run) loadKnown() {
	b, err := os.ReadFile(filepath.Join(Root, "known_findings.json"))
	if err != nil {
		return
	}
	var doc struct {
		Findings []knownFinding `json:"findings"`
	}
	if err := json.Unmarshal(b, &doc); err != nil {
		fmt.Fprintln(os.Stderr, "known_findings.json:", err)
		os.Exit(2)
	}
	for _, k := range doc.Findings {
		if k.Status != "open" || k.Property != r.Property {
			continue
		}
		k.re = regexp.MustCompile("^(?:" + k.Subject + ")$")
		r.known = append(r.known, k)
	}
}

func H(s string) uint64 {
	h := fnv.New64a()
	h.Write([]byte(s))
	return h.Sum64()
}

// Eval counts one executed case; key identifies it for the distinct count ("" = trivial, not counted).
func (r *Run) Eval(key uint64, nontrivial bool) {
	r.mu.Lock()
	r.Evaluations++
	if nontrivial {
		r.distinct[key] = struct{}{}
	}
	r.mu.Unlock()
}

// Local is a per-goroutine accumulator merged into the Run at the end.
type Local struct {
	Evals, Transitions, Traces int64
	Keys                       map[uint64]struct{}
	States                     map[uint64]struct{}
}

func NewLocal() *Local {
	return &Local{Keys: map[uint64]struct{}{}, States: map[uint64]struct{}{}}
}

func (l *Local) Eval(key uint64, nontrivial bool) {
	l.Evals++
	if nontrivial {
		l.Keys[key] = struct{}{}
	}
}

func (r *Run) Merge(l *Local) {
	r.mu.Lock()
	r.Evaluations += l.Evals
	r.Transitions += l.Transitions
	r.Traces += l.Traces
	for k := range l.Keys {
		r.distinct[k] = struct{}{}
	}
	for k := range l.States {
		r.States[k] = struct{}{}
	}
	r.mu.Unlock()
}

func (r *Run) AddEvals(n int64) {
	r.mu.Lock()
	r.Evaluations += n
	r.mu.Unlock()
}

func (r *Run) Distinct(key uint64) {
	r.mu.Lock()
	r.distinct[key] = struct{}{}
	r.mu.Unlock()
}

func (r *Run) State(key uint64) {
	r.mu.Lock()
	r.States[key] = struct{}{}
	r.mu.Unlock()
}

func (r *Run) Transition(n int64) {
	r.mu.Lock()
	r.Transitions += n
	r.mu.Unlock()
}

func (r *Run) Trace(n int64) {
	r.mu.Lock()
	r.Traces += n
	r.mu.Unlock()
}

// Outcome records a distinct observed outcome for a scenario (vacuity indicator).
func (r *Run) Outcome(scenario, outcome string) {
	r.mu.Lock()
	m := r.outcomes[scenario]
	if m == nil {
		m = map[string]struct{}{}
		r.outcomes[scenario] = m
	}
	m[outcome] = struct{}{}
	r.mu.Unlock()
}

// SetDistinct sets the distinct / states counts measured elsewhere (e.g. summed over worker processes).
func (r *Run) SetDistinct(n int64) {
	r.mu.Lock()
	r.distinctOverride = n
	r.mu.Unlock()
}

// SetDistinctAdd accumulates into the externally measured distinct / states count.
func (r *Run) SetDistinctAdd(n int64) {
	r.mu.Lock()
	r.distinctOverride += n
	r.mu.Unlock()
}

func (r *Run) Sample(s any) {
	r.mu.Lock()
	if len(r.Samples) < 12 {
		r.Samples = append(r.Samples, s)
	}
	r.mu.Unlock()
}

func (r *Run) Cap(s string) {
	r.mu.Lock()
	r.Exhaustive = false
	r.Caps = append(r.Caps, s)
	r.mu.Unlock()
}

func (r *Run) Set(k string, v any) {
	r.mu.Lock()
	r.Extra[k] = v
	r.mu.Unlock()
}

func (r *Run) Add(k string, n int64) {
	r.mu.Lock()
	cur, _ := r.Extra[k].(int64)
	r.Extra[k] = cur + n
	r.mu.Unlock()
}

func (r *Run) Assume(s ...string) { r.Assumptions = append(r.Assumptions, s...) }

// NumViolations returns the number of unknown violations so far.
func (r *Run) NumViolations() int {
	r.mu.Lock()
	defer r.mu.Unlock()
	return len(r.violations)
}

// TooMany reports whether enough violations were collected to stop exploring.
func (r *Run) TooMany() bool { return r.NumViolations() >= r.maxViolation }

// Violate records a violation (deduplicated by kind+subject).
func (r *Run) Violate(v *Violation) {
	v.Property = r.Property
	r.mu.Lock()
	defer r.mu.Unlock()
	for _, k := range r.known {
		if k.Kind == v.Kind && k.re.MatchString(v.Subject) {
			r.knownHits[k.Kind+" "+k.Subject+": "+k.What]++
			return
		}
	}
	for _, o := range r.violations {
		if o.Kind == v.Kind && o.Subject == v.Subject {
			return
		}
	}
	if len(r.violations) >= r.maxViolation {
		return
	}
	r.violations = append(r.violations, v)
}

// Finish writes evidence + replay files, prints result lines and returns the exit code.
func (r *Run) Finish() int {
	r.mu.Lock()
	defer r.mu.Unlock()
	wall := time.Since(r.start).Seconds()
	os.MkdirAll(filepath.Join(Root, "replays"), 0o755)
	os.MkdirAll(filepath.Join(Root, "evidence"), 0o755)
	for _, v := range r.violations {
		b, _ := json.MarshalIndent(v, "", " ")
		name := fmt.Sprintf("%s-%016x.json", r.Property, H(v.Kind+"|"+v.Subject+"|"+v.Detail))
		v.Path = filepath.Join(Root, "replays", name)
		os.WriteFile(v.Path, b, 0o644)
	}
	nd, ns := int64(len(r.distinct)), int64(len(r.States))
	nd, ns = nd+r.distinctOverride, ns+r.distinctOverride
	cov := map[string]any{
		"evaluations":                   r.Evaluations,
		"distinct_nontrivial":           nd,
		"rule":                          r.Rule,
		"samples":                       r.Samples,
		"states":                        ns,
		"transitions":                   r.Transitions,
		"traces_validated_against_impl": r.Traces,
		"exhaustive":                    r.Exhaustive,
	}
	if len(r.Caps) > 0 {
		cov["caps_hit"] = r.Caps
	}
	if len(r.outcomes) > 0 {
		oc := map[string]int{}
		min, max, total := 1<<30, 0, 0
		for k, m := range r.outcomes {
			oc[k] = len(m)
			if len(m) < min {
				min = len(m)
			}
			if len(m) > max {
				max = len(m)
			}
			total += len(m)
		}
		cov["distinct_outcomes"] = map[string]any{"scenarios": len(oc), "min": min, "max": max, "total": total}
		if len(oc) <= 40 {
			cov["distinct_outcomes_per_scenario"] = oc
		}
	}
	for k, v := range r.Extra {
		cov[k] = v
	}
	if len(r.knownHits) > 0 {
		cov["known_findings_hit"] = r.knownHits
	}
	if r.Samples == nil {
		cov["samples"] = []any{}
	}
	if r.Assumptions == nil {
		r.Assumptions = []string{}
	}
	doc := map[string]any{
		"property_id": r.Property,
		"tier":        r.Tier,
		"seed":        r.Seed,
		"level":       "model_checking",
		"coverage":    cov,
		"assumptions": r.Assumptions,
		"wall_s":      float64(int(wall*1000)) / 1000,
		"violations":  len(r.violations),
	}
	b, _ := json.MarshalIndent(doc, "", " ")
	if err := os.WriteFile(filepath.Join(Root, "evidence", r.Property+".json"), append(b, '\n'), 0o644); err != nil {
		fmt.Fprintln(os.Stderr, "evidence:", err)
		return 2
	}
	var hits []string
	for k := range r.knownHits {
		hits = append(hits, k)
	}
	sort.Strings(hits)
	for _, k := range hits {
		fmt.Printf("KNOWN-FINDING: property=%s %s (%d cases)\n", r.Property, k, r.knownHits[k])
	}
	fmt.Printf("%s %s: evaluations=%d distinct=%d states=%d transitions=%d traces=%d exhaustive=%v wall=%.1fs\n",
		r.Property, r.Tier, r.Evaluations, nd, ns, r.Transitions, r.Traces, r.Exhaustive, wall)
	if len(r.violations) == 0 {
		return 0
	}
	for _, v := range r.violations {
		fmt.Printf("VIOLATION property=%s replay=%s\n", r.Property, v.Path)
		fmt.Printf("  %s [%s] %s\n", v.Kind, v.Subject, strings.ReplaceAll(v.Detail, "\n", "\n  "))
	}
	return 1
}
