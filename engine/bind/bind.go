// Package bind converts between refmodel.Value trees and the library's real
// message structs by reflection (DESIGN 3.1 "Binding to the implementation").
package bind

import (
	"bytes"
	"fmt"
	"math"
	"reflect"

	"github.com/xinchentechnote/fin-proto-go/codec"

	"verif/engine/refmodel"
)

var (
	Protos  = refmodel.MustLoad()
	Types   = refmodel.AllTypes(Protos)
	byGo    = map[reflect.Type]*refmodel.Type{}
	byQName = map[string]*refmodel.Type{}
)

func init() {
	for _, t := range Types {
		gt, ok := goTypes[t.QName()]
		if !ok {
			panic("bind: no Go type for " + t.QName())
		}
		byGo[gt] = t
		byQName[t.QName()] = t
	}
}

// Proto returns the protocol by short name.
func Proto(name string) *refmodel.Proto {
	for _, p := range Protos {
		if p.Protocol == name {
			return p
		}
	}
	return nil
}

func TypeByQName(q string) *refmodel.Type { return byQName[q] }

// GoType returns the reflect.Type of the struct bound to t.
func GoType(t *refmodel.Type) reflect.Type { return goTypes[t.QName()] }

// New returns a pointer to a fresh zero struct of t.
func New(t *refmodel.Type) any { return reflect.New(GoType(t)).Interface() }

// Ctor calls the library's constructor New<T>() if it has one (nil otherwise).
func Ctor(t *refmodel.Type) any {
	if c, ok := ctors[t.QName()]; ok {
		return c()
	}
	return nil
}

// Factory calls the library's New…MessageBy… function for the table.
func Factory(p *refmodel.Proto, tab *refmodel.Table, key *refmodel.Value) (codec.BinaryCodec, error) {
	f := reflect.ValueOf(factories[p.Protocol+"."+tab.Factory])
	var arg reflect.Value
	if tab.KeyKind == "text" {
		arg = reflect.ValueOf(string(key.Text))
	} else {
		arg = reflect.New(f.Type().In(0)).Elem()
		arg.SetUint(key.Bits)
	}
	out := f.Call([]reflect.Value{arg})
	var err error
	if !out[1].IsNil() {
		err = out[1].Interface().(error)
	}
	if out[0].IsNil() {
		return nil, err
	}
	return out[0].Interface().(codec.BinaryCodec), err
}

// ToReal builds the real message (pointer to struct) for a VStruct value.
func ToReal(v *refmodel.Value) (any, error) {
	if v.K != refmodel.VStruct || v.Nil {
		return nil, fmt.Errorf("bind: not a struct value")
	}
	p := reflect.New(GoType(v.Type))
	if err := fillStruct(p.Elem(), v); err != nil {
		return nil, err
	}
	return p.Interface(), nil
}

// MustReal is ToReal that panics on a binding error (harness error).
func MustReal(v *refmodel.Value) any {
	m, err := ToReal(v)
	if err != nil {
		panic(err)
	}
	return m
}

func fillStruct(s reflect.Value, v *refmodel.Value) error {
	t := v.Type
	for i := range t.Fields {
		f := &t.Fields[i]
		fv := s.FieldByName(f.Name)
		if !fv.IsValid() {
			return fmt.Errorf("bind: %s has no field %s", t.QName(), f.Name)
		}
		if err := setField(fv, t, f, v.Fields[i]); err != nil {
			return fmt.Errorf("%s.%s: %w", t.Name, f.Name, err)
		}
	}
	return nil
}

func setScalar(fv reflect.Value, kind string, bits uint64) error {
	switch fv.Kind() {
	case reflect.Int8, reflect.Int16, reflect.Int32, reflect.Int64:
		w := uint(refmodel.ScalarWidth(kind) * 8)
		sh := 64 - w
		fv.SetInt(int64(bits<<sh) >> sh)
	case reflect.Uint8, reflect.Uint16, reflect.Uint32, reflect.Uint64:
		fv.SetUint(bits)
	case reflect.Float32:
		// never through SetFloat: float32<->float64 conversion quiets signalling NaNs
		*(fv.Addr().Interface().(*float32)) = math.Float32frombits(uint32(bits))
	case reflect.Float64:
		*(fv.Addr().Interface().(*float64)) = math.Float64frombits(bits)
	default:
		return fmt.Errorf("bind: scalar into %s", fv.Kind())
	}
	return nil
}

func getScalar(fv reflect.Value) (uint64, error) {
	switch fv.Kind() {
	case reflect.Int8, reflect.Int16, reflect.Int32, reflect.Int64:
		w := uint(fv.Type().Size() * 8)
		if w == 64 {
			return uint64(fv.Int()), nil
		}
		return uint64(fv.Int()) & ((1 << w) - 1), nil
	case reflect.Uint8, reflect.Uint16, reflect.Uint32, reflect.Uint64:
		return fv.Uint(), nil
	case reflect.Float32:
		if fv.CanAddr() {
			return uint64(math.Float32bits(*(fv.Addr().Interface().(*float32)))), nil
		}
		return uint64(math.Float32bits(fv.Interface().(float32))), nil
	case reflect.Float64:
		return math.Float64bits(fv.Float()), nil
	}
	return 0, fmt.Errorf("bind: scalar from %s", fv.Kind())
}

func setField(fv reflect.Value, t *refmodel.Type, f *refmodel.Field, v *refmodel.Value) error {
	switch f.Kind {
	case "fixtext", "lentext":
		if fv.Kind() != reflect.String {
			return fmt.Errorf("bind: text into %s", fv.Kind())
		}
		fv.SetString(string(v.Text))
	case "list":
		if fv.Kind() != reflect.Slice {
			return fmt.Errorf("bind: list into %s", fv.Kind())
		}
		if v.Nil {
			fv.Set(reflect.Zero(fv.Type()))
			return nil
		}
		sl := reflect.MakeSlice(fv.Type(), len(v.Elems), len(v.Elems))
		for j, ev := range v.Elems {
			if err := setField(sl.Index(j), t, f.Elem, ev); err != nil {
				return err
			}
		}
		fv.Set(sl)
	case "struct":
		if fv.Kind() == reflect.Ptr {
			if v.Nil {
				fv.Set(reflect.Zero(fv.Type()))
				return nil
			}
			p := reflect.New(fv.Type().Elem())
			if GoType(v.Type) != fv.Type().Elem() {
				return fmt.Errorf("bind: %s into *%s", v.Type.QName(), fv.Type().Elem())
			}
			if err := fillStruct(p.Elem(), v); err != nil {
				return err
			}
			fv.Set(p)
			return nil
		}
		return fillStruct(fv, v)
	case "dyn":
		if v.Nil {
			fv.Set(reflect.Zero(fv.Type()))
			return nil
		}
		p := reflect.New(GoType(v.Type))
		if err := fillStruct(p.Elem(), v); err != nil {
			return err
		}
		fv.Set(p)
	default: // scalars incl. length/checksum
		k := f.Kind
		if k == "length" || k == "checksum" {
			k = f.Scalar
		}
		return setScalar(fv, k, v.Bits)
	}
	return nil
}

// FromReal reads a real message (pointer to struct) back into a Value.
func FromReal(t *refmodel.Type, msg any) (*refmodel.Value, error) {
	rv := reflect.ValueOf(msg)
	if rv.Kind() != reflect.Ptr || rv.IsNil() {
		return nil, fmt.Errorf("bind: FromReal wants a non-nil pointer")
	}
	if rv.Type().Elem() != GoType(t) {
		return nil, fmt.Errorf("bind: FromReal %s got %s", t.QName(), rv.Type())
	}
	return readStruct(t, rv.Elem())
}

// MustFrom is FromReal that panics on a binding error.
func MustFrom(t *refmodel.Type, msg any) *refmodel.Value {
	v, err := FromReal(t, msg)
	if err != nil {
		panic(err)
	}
	return v
}

func readStruct(t *refmodel.Type, s reflect.Value) (*refmodel.Value, error) {
	v := &refmodel.Value{K: refmodel.VStruct, Type: t, Fields: make([]*refmodel.Value, len(t.Fields))}
	for i := range t.Fields {
		f := &t.Fields[i]
		fv := s.FieldByName(f.Name)
		if !fv.IsValid() {
			return nil, fmt.Errorf("bind: %s has no field %s", t.QName(), f.Name)
		}
		x, err := readField(fv, t, f)
		if err != nil {
			return nil, fmt.Errorf("%s.%s: %w", t.Name, f.Name, err)
		}
		v.Fields[i] = x
	}
	return v, nil
}

func readField(fv reflect.Value, t *refmodel.Type, f *refmodel.Field) (*refmodel.Value, error) {
	switch f.Kind {
	case "fixtext", "lentext":
		// copy: a zero-copy string must not hide inside the snapshot
		return refmodel.Text([]byte(fv.String())), nil
	case "list":
		if fv.IsNil() {
			return refmodel.NilList(), nil
		}
		l := &refmodel.Value{K: refmodel.VList, Elems: make([]*refmodel.Value, fv.Len())}
		for j := 0; j < fv.Len(); j++ {
			x, err := readField(fv.Index(j), t, f.Elem)
			if err != nil {
				return nil, err
			}
			l.Elems[j] = x
		}
		return l, nil
	case "struct":
		st := t.Proto.Type(f.Type)
		if fv.Kind() == reflect.Ptr {
			if fv.IsNil() {
				return refmodel.NilStruct(), nil
			}
			return readStruct(st, fv.Elem())
		}
		return readStruct(st, fv)
	case "dyn":
		if fv.IsNil() {
			return refmodel.NilStruct(), nil
		}
		e := fv.Elem() // the pointer stored in the interface
		if e.Kind() != reflect.Ptr || e.IsNil() {
			return nil, fmt.Errorf("bind: body holds %s", e.Type())
		}
		bt, ok := byGo[e.Type().Elem()]
		if !ok {
			return nil, fmt.Errorf("bind: body of unbound type %s", e.Type())
		}
		return readStruct(bt, e.Elem())
	default:
		b, err := getScalar(fv)
		if err != nil {
			return nil, err
		}
		return refmodel.Scalar(b), nil
	}
}

// DynGoType returns the dynamic Go type name held in a dyn field, "" for nil.
func DynGoType(msg any, field string) string {
	fv := reflect.ValueOf(msg).Elem().FieldByName(field)
	if !fv.IsValid() || fv.IsNil() {
		return ""
	}
	return fv.Elem().Type().String()
}

// Encode calls the real Encode.  SubOrder.Encode has no error result.
func Encode(msg any, buf *bytes.Buffer) error {
	if c, ok := msg.(codec.BinaryCodec); ok {
		return c.Encode(buf)
	}
	m := reflect.ValueOf(msg).MethodByName("Encode")
	if !m.IsValid() {
		return fmt.Errorf("bind: %T has no Encode", msg)
	}
	out := m.Call([]reflect.Value{reflect.ValueOf(buf)})
	if len(out) == 1 && !out[0].IsNil() {
		return out[0].Interface().(error)
	}
	return nil
}

// Decode calls the real Decode.
func Decode(msg any, buf *bytes.Buffer) error {
	if c, ok := msg.(codec.BinaryCodec); ok {
		return c.Decode(buf)
	}
	m := reflect.ValueOf(msg).MethodByName("Decode")
	if !m.IsValid() {
		return fmt.Errorf("bind: %T has no Decode", msg)
	}
	out := m.Call([]reflect.Value{reflect.ValueOf(buf)})
	if len(out) == 1 && !out[0].IsNil() {
		return out[0].Interface().(error)
	}
	return nil
}

// DecodeFunc resolves msg's Decode method once (no reflection at call time for
// BinaryCodec types), so that measurements around the call see only the library's work.
func DecodeFunc(msg any) func(*bytes.Buffer) error {
	if c, ok := msg.(codec.BinaryCodec); ok {
		return c.Decode
	}
	m := reflect.ValueOf(msg).MethodByName("Decode")
	if f, ok := m.Interface().(func(*bytes.Buffer) error); ok {
		return f
	}
	return func(b *bytes.Buffer) error { return Decode(msg, b) }
}

// RawFactory returns the library's New…MessageBy… function value itself (for direct, non-reflective calls).
func RawFactory(p *refmodel.Proto, tab *refmodel.Table) any {
	return factories[p.Protocol+"."+tab.Factory]
}

// AddSpare gives every slice reachable from the real message m (through pointers, structs and interfaces) `extra`
// elements of spare capacity holding zero values (nil pointers for lists of objects): the receiver a caller gets by
// pre-allocating its lists (make([]*T, n, n+extra)) or that append's doubling leaves behind.
func AddSpare(m any, extra int) {
	var walk func(v reflect.Value)
	walk = func(v reflect.Value) {
		switch v.Kind() {
		case reflect.Ptr, reflect.Interface:
			if !v.IsNil() {
				walk(v.Elem())
			}
		case reflect.Struct:
			for i := 0; i < v.NumField(); i++ {
				if v.Field(i).CanSet() || v.Field(i).Kind() == reflect.Ptr || v.Field(i).Kind() == reflect.Interface {
					walk(v.Field(i))
				}
			}
		case reflect.Slice:
			if v.CanSet() {
				ns := reflect.MakeSlice(v.Type(), v.Len(), v.Len()+extra)
				reflect.Copy(ns, v)
				v.Set(ns)
			}
			for i := 0; i < v.Len(); i++ {
				walk(v.Index(i))
			}
		}
	}
	walk(reflect.ValueOf(m))
}

// AliasParts makes the real message m share element objects the way a hand-built message may: in every struct
// reachable from m, every slice of pointers gets all its elements set to ONE pointer (its first element, or - when the
// same struct has a non-nil pointer field of the element type - that field's object).
func AliasParts(m any) {
	var walk func(v reflect.Value)
	walk = func(v reflect.Value) {
		switch v.Kind() {
		case reflect.Ptr, reflect.Interface:
			if !v.IsNil() {
				walk(v.Elem())
			}
		case reflect.Struct:
			for i := 0; i < v.NumField(); i++ {
				f := v.Field(i)
				if f.Kind() == reflect.Slice && f.Type().Elem().Kind() == reflect.Ptr && f.Len() > 0 && f.CanSet() {
					shared := f.Index(0)
					for j := 0; j < v.NumField(); j++ {
						if g := v.Field(j); g.Kind() == reflect.Ptr && g.Type() == f.Type().Elem() && !g.IsNil() {
							shared = g
						}
					}
					for k := 0; k < f.Len(); k++ {
						f.Index(k).Set(shared)
					}
				}
			}
			for i := 0; i < v.NumField(); i++ {
				walk(v.Field(i))
			}
		case reflect.Slice:
			for i := 0; i < v.Len() && i < 1; i++ {
				walk(v.Index(i))
			}
		}
	}
	walk(reflect.ValueOf(m))
}
