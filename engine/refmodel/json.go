package refmodel

import (
	"encoding/hex"
	"fmt"
	"strconv"
)

// ToJSON renders a value as plain JSON-able data (for replay files).
func ToJSON(v *Value) any {
	switch v.K {
	case VScalar:
		return map[string]any{"s": "0x" + strconv.FormatUint(v.Bits, 16)}
	case VText:
		return map[string]any{"t": hex.EncodeToString(v.Text)}
	case VList:
		if v.Nil {
			return map[string]any{"l": nil}
		}
		out := make([]any, len(v.Elems))
		for i, e := range v.Elems {
			out[i] = ToJSON(e)
		}
		return map[string]any{"l": out}
	default:
		if v.Nil {
			return map[string]any{"nil": true}
		}
		out := make([]any, len(v.Fields))
		for i, e := range v.Fields {
			out[i] = ToJSON(e)
		}
		return map[string]any{"T": v.Type.QName(), "f": out}
	}
}

// FromJSON is the inverse of ToJSON; lookup resolves qualified type names.
func FromJSON(x any, lookup func(string) *Type) (*Value, error) {
	m, ok := x.(map[string]any)
	if !ok {
		return nil, fmt.Errorf("value json: not an object")
	}
	if s, ok := m["s"]; ok {
		n, err := strconv.ParseUint(s.(string)[2:], 16, 64)
		return Scalar(n), err
	}
	if t, ok := m["t"]; ok {
		b, err := hex.DecodeString(t.(string))
		return &Value{K: VText, Text: b}, err
	}
	if l, ok := m["l"]; ok {
		if l == nil {
			return NilList(), nil
		}
		out := &Value{K: VList, Elems: []*Value{}}
		for _, e := range l.([]any) {
			ev, err := FromJSON(e, lookup)
			if err != nil {
				return nil, err
			}
			out.Elems = append(out.Elems, ev)
		}
		return out, nil
	}
	if _, ok := m["nil"]; ok {
		return NilStruct(), nil
	}
	t := lookup(m["T"].(string))
	if t == nil {
		return nil, fmt.Errorf("value json: unknown type %v", m["T"])
	}
	out := &Value{K: VStruct, Type: t}
	for _, e := range m["f"].([]any) {
		ev, err := FromJSON(e, lookup)
		if err != nil {
			return nil, err
		}
		out.Fields = append(out.Fields, ev)
	}
	return out, nil
}
