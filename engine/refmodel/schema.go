// Package refmodel is the independent interpreter of the pinned schema
// (DESIGN 3.1).  It imports nothing from the library under verification.
package refmodel

import (
	"encoding/json"
	"fmt"
	"sort"

	"verif/schema"
)

type Field struct {
	Name    string `json:"name"`
	Kind    string `json:"kind"` // i8..u64,f32,f64,fixtext,lentext,list,struct,dyn,length,checksum
	Width   int    `json:"width,omitempty"`
	Pad     int    `json:"pad,omitempty"`
	Left    bool   `json:"left,omitempty"`
	Prefix  string `json:"prefix,omitempty"`
	Count   string `json:"count,omitempty"`
	Elem    *Field `json:"elem,omitempty"`
	Type    string `json:"type,omitempty"`
	Ptr     bool   `json:"ptr,omitempty"`
	Factory string `json:"factory,omitempty"`
	Key     string `json:"key,omitempty"`
	Nil     string `json:"nil,omitempty"` // fill | skip (what the encoder does with a nil body)
	Scalar  string `json:"scalar,omitempty"`
	Alg     string `json:"alg,omitempty"`
}

type Type struct {
	Name          string  `json:"name"`
	Order         string  `json:"order"`
	Ctor          string  `json:"ctor,omitempty"`
	Handwritten   bool    `json:"handwritten,omitempty"`
	EncodeNoError bool    `json:"encode_no_error,omitempty"`
	Fields        []Field `json:"fields"`
	Proto         *Proto  `json:"-"`
}

type Table struct {
	Factory  string            `json:"factory"`
	Owner    string            `json:"owner"`
	KeyKind  string            `json:"keykind"`
	Register string            `json:"register"`
	Entries  map[string]string `json:"entries"`
	Order    []string          `json:"order"`
}

type Proto struct {
	Protocol string   `json:"protocol"`
	Version  string   `json:"version"`
	Dir      string   `json:"dir"`
	Package  string   `json:"package"`
	Import   string   `json:"import"`
	Order    string   `json:"order"`
	Types    []*Type  `json:"types"`
	Tables   []*Table `json:"tables"`
	Caches   []string `json:"caches"`

	byName  map[string]*Type
	byTable map[string]*Table
}

func (p *Proto) Type(name string) *Type  { return p.byName[name] }
func (p *Proto) Table(fac string) *Table { return p.byTable[fac] }

// QName is the protocol-qualified type name, e.g. "szse.NewOrder".
func (t *Type) QName() string { return t.Proto.Protocol + "." + t.Name }

func (t *Type) Little() bool { return t.Order == "little" }

// FieldIndex returns the index of the named field or -1.
func (t *Type) FieldIndex(name string) int {
	for i := range t.Fields {
		if t.Fields[i].Name == name {
			return i
		}
	}
	return -1
}

// IsFrame reports whether the type has a dyn field keyed by a frame table (it is a root frame).
func (t *Type) DynField() int {
	for i := range t.Fields {
		if t.Fields[i].Kind == "dyn" {
			return i
		}
	}
	return -1
}

func (t *Type) HasComputed() bool {
	for i := range t.Fields {
		if t.Fields[i].Kind == "length" || t.Fields[i].Kind == "checksum" {
			return true
		}
	}
	return false
}

var ProtoNames = []string{"sse", "szse", "bjse", "risk", "sample"}

// Load reads all pinned schemas.
func Load() ([]*Proto, error) {
	var out []*Proto
	for _, n := range ProtoNames {
		b, err := schema.FS.ReadFile("pinned/" + n + ".json")
		if err != nil {
			return nil, err
		}
		p := &Proto{}
		if err := json.Unmarshal(b, p); err != nil {
			return nil, fmt.Errorf("%s: %w", n, err)
		}
		p.byName = map[string]*Type{}
		p.byTable = map[string]*Table{}
		for _, t := range p.Types {
			t.Proto = p
			p.byName[t.Name] = t
		}
		for _, t := range p.Tables {
			p.byTable[t.Factory] = t
		}
		out = append(out, p)
	}
	return out, nil
}

// MustLoad panics on a broken pinned schema (a harness error, never a violation).
func MustLoad() []*Proto {
	ps, err := Load()
	if err != nil {
		panic(err)
	}
	return ps
}

// AllTypes returns every pinned type in deterministic order.
func AllTypes(ps []*Proto) []*Type {
	var out []*Type
	for _, p := range ps {
		ts := append([]*Type{}, p.Types...)
		sort.Slice(ts, func(i, j int) bool { return ts[i].Name < ts[j].Name })
		out = append(out, ts...)
	}
	return out
}

func ScalarWidth(kind string) int {
	switch kind {
	case "i8", "u8":
		return 1
	case "i16", "u16":
		return 2
	case "i32", "u32", "f32":
		return 4
	case "i64", "u64", "f64":
		return 8
	}
	return 0
}

func IsScalar(kind string) bool { return ScalarWidth(kind) > 0 }

func IsSigned(kind string) bool { return kind[0] == 'i' }

func IsFloat(kind string) bool { return kind[0] == 'f' }

// MaxOf returns the largest count/length representable in an unsigned prefix kind.
func MaxOf(kind string) uint64 {
	w := ScalarWidth(kind)
	if w == 8 {
		return ^uint64(0)
	}
	return (uint64(1) << (8 * uint(w))) - 1
}
