package refmodel

import (
	"errors"
	"fmt"
)

// Segment is one wire region produced by the layout walk.
type Segment struct {
	Off, Len int
	Role     string // int, float, text, count, textlen, length, checksum, key
	Path     string
	Kind     string // scalar kind for numeric roles
	Little   bool
}

var (
	ErrOverflow   = errors.New("ref: value does not fit its length prefix")
	ErrUnknownKey = errors.New("ref: unregistered discriminator")
	ErrShort      = errors.New("ref: short input")
	ErrNilPart    = errors.New("ref: nil nested part")
)

type encoder struct {
	out  []byte
	segs []Segment
	walk bool
}

func (e *encoder) seg(off, n int, role, path, kind string, little bool) {
	if e.walk {
		e.segs = append(e.segs, Segment{off, n, role, path, kind, little})
	}
}

func putInt(out []byte, bits uint64, w int, little bool) []byte {
	for i := 0; i < w; i++ {
		var sh uint
		if little {
			sh = uint(8 * i)
		} else {
			sh = uint(8 * (w - 1 - i))
		}
		out = append(out, byte(bits>>sh))
	}
	return out
}

func getInt(b []byte, w int, little bool) uint64 {
	var v uint64
	for i := 0; i < w; i++ {
		var sh uint
		if little {
			sh = uint(8 * i)
		} else {
			sh = uint(8 * (w - 1 - i))
		}
		v |= uint64(b[i]) << sh
	}
	return v
}

// FixText renders s into an N-byte field (cut or pad).
func FixText(s []byte, n int, pad byte, left bool) []byte {
	if len(s) >= n {
		return append([]byte{}, s[:n]...)
	}
	out := make([]byte, 0, n)
	if left {
		for i := 0; i < n-len(s); i++ {
			out = append(out, pad)
		}
		return append(out, s...)
	}
	out = append(out, s...)
	for i := 0; i < n-len(s); i++ {
		out = append(out, pad)
	}
	return out
}

// StripText removes the maximal run of pad bytes from the pad side only.
func StripText(w []byte, pad byte, left bool) []byte {
	if left {
		i := 0
		for i < len(w) && w[i] == pad {
			i++
		}
		return append([]byte{}, w[i:]...)
	}
	j := len(w)
	for j > 0 && w[j-1] == pad {
		j--
	}
	return append([]byte{}, w[:j]...)
}

// EncodeRef renders v (a VStruct of type t) by the pinned schema.  Computed
// length and checksum fields are rendered with their correct values whatever
// v holds.  It returns the bytes, the layout walk, and the value as the
// library's message object should look after Encode (computed fields fixed
// up, nil bodies materialised where the schema says the encoder fills them in).
func EncodeRef(v *Value) ([]byte, []Segment, *Value, error) {
	e := &encoder{walk: true}
	after := v.Clone()
	err := e.encStruct(after, "")
	return e.out, e.segs, after, err
}

// EncodeBytes is EncodeRef without the walk.
func EncodeBytes(v *Value) ([]byte, error) {
	e := &encoder{}
	err := e.encStruct(v.Clone(), "")
	return e.out, err
}

func (e *encoder) encStruct(v *Value, path string) error {
	if v.Nil {
		return ErrNilPart
	}
	t := v.Type
	little := t.Little()
	start := len(e.out)
	lenPos, lenField := -1, -1
	bodyStart, bodyEnd := -1, -1
	for i := range t.Fields {
		f := &t.Fields[i]
		fv := v.Fields[i]
		p := path + "." + f.Name
		switch f.Kind {
		case "length":
			lenPos, lenField = len(e.out), i
			w := ScalarWidth(f.Scalar)
			e.seg(len(e.out), w, "length", p, f.Scalar, little)
			e.out = putInt(e.out, 0, w, little)
		case "checksum":
			w := ScalarWidth(f.Scalar)
			sum := Checksum(f.Alg, e.out[start:])
			fv.Bits = sum & MaxOf("u"+f.Scalar[1:])
			e.seg(len(e.out), w, "checksum", p, f.Scalar, little)
			e.out = putInt(e.out, fv.Bits, w, little)
		case "dyn":
			bodyStart = len(e.out)
			if fv.Nil {
				if f.Nil == "fill" {
					tab := t.Proto.Table(f.Factory)
					k := KeyString(tab, v.Fields[t.FieldIndex(f.Key)])
					tn, ok := tab.Entries[k]
					if !ok {
						return ErrUnknownKey
					}
					nb := GoZero(t.Proto.Type(tn))
					v.Fields[i] = nb
					fv = nb
				}
			}
			if !fv.Nil {
				if err := e.encStruct(fv, p); err != nil {
					return err
				}
			}
			bodyEnd = len(e.out)
			if lenField >= 0 {
				lf := &t.Fields[lenField]
				w := ScalarWidth(lf.Scalar)
				n := uint64(bodyEnd-bodyStart) & MaxOf("u"+lf.Scalar[1:])
				v.Fields[lenField].Bits = n
				copy(e.out[lenPos:lenPos+w], putInt(nil, n, w, little))
			}
		default:
			if err := e.encField(t, f, fv, p, little); err != nil {
				return err
			}
		}
	}
	return nil
}

func (e *encoder) encField(t *Type, f *Field, fv *Value, p string, little bool) error {
	switch f.Kind {
	case "fixtext":
		e.seg(len(e.out), f.Width, "text", p, "", false)
		e.out = append(e.out, FixText(fv.Text, f.Width, byte(f.Pad), f.Left)...)
	case "lentext":
		if uint64(len(fv.Text)) > MaxOf(f.Prefix) {
			return ErrOverflow
		}
		w := ScalarWidth(f.Prefix)
		e.seg(len(e.out), w, "textlen", p, f.Prefix, little)
		e.out = putInt(e.out, uint64(len(fv.Text)), w, little)
		e.seg(len(e.out), len(fv.Text), "vartext", p, "", false)
		e.out = append(e.out, fv.Text...)
	case "list":
		if uint64(len(fv.Elems)) > MaxOf(f.Count) {
			return ErrOverflow
		}
		w := ScalarWidth(f.Count)
		e.seg(len(e.out), w, "count", p, f.Count, little)
		e.out = putInt(e.out, uint64(len(fv.Elems)), w, little)
		for j, ev := range fv.Elems {
			ep := fmt.Sprintf("%s[%d]", p, j)
			if f.Elem.Kind == "struct" {
				if err := e.encStruct(ev, ep); err != nil {
					return err
				}
			} else if err := e.encField(t, f.Elem, ev, ep, little); err != nil {
				return err
			}
		}
	case "struct":
		if fv.Nil {
			// after the C17 repair the encoder materialises a nil nested part; the model encodes the zero part
			z := GoZero(t.Proto.Type(f.Type))
			*fv = *z
		}
		return e.encStruct(fv, p)
	default:
		w := ScalarWidth(f.Kind)
		if w == 0 {
			return fmt.Errorf("ref: unknown kind %q", f.Kind)
		}
		role := "int"
		if IsFloat(f.Kind) {
			role = "float"
		}
		e.seg(len(e.out), w, role, p, f.Kind, little)
		e.out = putInt(e.out, fv.Bits, w, little)
	}
	return nil
}

type decoder struct {
	in      []byte
	pos     int
	hostile bool // a count/length prefix claimed more than the input holds
}

// DecodeRefX is DecodeRef that also reports whether some count or length
// prefix claimed more elements/bytes than there are input bytes left (the
// hostile-prefix class that C09/C10 explore in resource-limited workers).
func DecodeRefX(t *Type, b []byte) (*Value, int, error, bool) {
	d := &decoder{in: b}
	v, err := d.decStruct(t)
	return v, d.pos, err, d.hostile
}

// DecodeRef parses one message of type t from b.  It returns the value, the
// number of bytes consumed, and an error for short input or an unregistered key.
func DecodeRef(t *Type, b []byte) (*Value, int, error) {
	d := &decoder{in: b}
	v, err := d.decStruct(t)
	return v, d.pos, err
}

func (d *decoder) take(n int) ([]byte, error) {
	if n < 0 || len(d.in)-d.pos < n {
		d.pos = len(d.in)
		return nil, ErrShort
	}
	b := d.in[d.pos : d.pos+n]
	d.pos += n
	return b, nil
}

func (d *decoder) decStruct(t *Type) (*Value, error) {
	v := &Value{K: VStruct, Type: t, Fields: make([]*Value, len(t.Fields))}
	little := t.Little()
	for i := range t.Fields {
		f := &t.Fields[i]
		switch f.Kind {
		case "length", "checksum":
			b, err := d.take(ScalarWidth(f.Scalar))
			if err != nil {
				return nil, err
			}
			v.Fields[i] = Scalar(getInt(b, len(b), little))
		case "dyn":
			tab := t.Proto.Table(f.Factory)
			k := KeyString(tab, v.Fields[t.FieldIndex(f.Key)])
			tn, ok := tab.Entries[k]
			if !ok {
				return nil, ErrUnknownKey
			}
			bv, err := d.decStruct(t.Proto.Type(tn))
			if err != nil {
				return nil, err
			}
			v.Fields[i] = bv
		default:
			fv, err := d.decField(t, f, little)
			if err != nil {
				return nil, err
			}
			v.Fields[i] = fv
		}
	}
	return v, nil
}

func (d *decoder) decField(t *Type, f *Field, little bool) (*Value, error) {
	switch f.Kind {
	case "fixtext":
		b, err := d.take(f.Width)
		if err != nil {
			return nil, err
		}
		return &Value{K: VText, Text: StripText(b, byte(f.Pad), f.Left)}, nil
	case "lentext":
		b, err := d.take(ScalarWidth(f.Prefix))
		if err != nil {
			return nil, err
		}
		n := getInt(b, len(b), little)
		if n > uint64(len(d.in)-d.pos) {
			d.hostile = true
			d.pos = len(d.in)
			return nil, ErrShort
		}
		tb, err := d.take(int(n))
		if err != nil {
			return nil, err
		}
		return Text(tb), nil
	case "list":
		b, err := d.take(ScalarWidth(f.Count))
		if err != nil {
			return nil, err
		}
		n := getInt(b, len(b), little)
		if n > uint64(len(d.in)-d.pos) {
			d.hostile = true
		}
		lv := &Value{K: VList, Elems: []*Value{}}
		for j := uint64(0); j < n; j++ {
			var ev *Value
			if f.Elem.Kind == "struct" {
				ev, err = d.decStruct(t.Proto.Type(f.Elem.Type))
			} else {
				ev, err = d.decField(t, f.Elem, little)
			}
			if err != nil {
				return nil, err
			}
			lv.Elems = append(lv.Elems, ev)
		}
		return lv, nil
	case "struct":
		return d.decStruct(t.Proto.Type(f.Type))
	default:
		w := ScalarWidth(f.Kind)
		b, err := d.take(w)
		if err != nil {
			return nil, err
		}
		return Scalar(getInt(b, w, little)), nil
	}
}

// ---- independent checksum implementations (bitwise) ----

// Checksum applies the named exchange algorithm; the result is zero-extended.
func Checksum(alg string, b []byte) uint64 {
	switch alg {
	case "CRC16":
		return uint64(CRC16Modbus(b))
	case "CRC32":
		return uint64(CRC32IEEE(b))
	case "SSE_BIN", "SZSE_BIN":
		return uint64(ByteSum(b))
	}
	panic("ref: unknown checksum algorithm " + alg)
}

func ByteSum(b []byte) uint8 {
	var s uint8
	for _, c := range b {
		s += c
	}
	return s
}

// CRC16Modbus: poly 0x8005 reflected (0xA001), init 0xFFFF, no xorout.
func CRC16Modbus(b []byte) uint16 {
	crc := uint16(0xFFFF)
	for _, c := range b {
		crc = CRC16Step(crc, c)
	}
	return crc
}

func CRC16Step(crc uint16, c byte) uint16 {
	for i := 0; i < 8; i++ {
		bit := (crc ^ uint16(c>>uint(i))) & 1
		crc >>= 1
		if bit == 1 {
			crc ^= 0xA001
		}
	}
	return crc
}

// CRC32IEEE: poly 0x04C11DB7 reflected (0xEDB88320), init/xorout 0xFFFFFFFF.
func CRC32IEEE(b []byte) uint32 {
	crc := ^uint32(0)
	for _, c := range b {
		crc = CRC32Step(crc, c)
	}
	return ^crc
}

func CRC32Step(crc uint32, c byte) uint32 {
	for i := 0; i < 8; i++ {
		bit := (crc ^ uint32(c>>uint(i))) & 1
		crc >>= 1
		if bit == 1 {
			crc ^= 0xEDB88320
		}
	}
	return crc
}

// EncodeField renders one non-struct field stand-alone (used for primitive-level checks).
func EncodeField(f *Field, v *Value, little bool) ([]byte, []Segment, error) {
	e := &encoder{walk: true}
	err := e.encField(nil, f, v, "", little)
	return e.out, e.segs, err
}

// DecodeField parses one non-struct field stand-alone.
func DecodeField(f *Field, b []byte, little bool) (*Value, int, error) {
	d := &decoder{in: b}
	v, err := d.decField(nil, f, little)
	return v, d.pos, err
}
