package refmodel

import (
	"bytes"
	"fmt"
	"strconv"
	"strings"
)

type VKind uint8

const (
	VScalar VKind = iota
	VText
	VList
	VStruct // also the body of a dyn field; Nil => absent body / nil pointer
)

// Value is a generic tree mirroring a message.
type Value struct {
	K      VKind
	Bits   uint64 // VScalar: the raw bit pattern, zero-extended to 64 bits
	Text   []byte // VText
	Nil    bool   // VList: nil slice; VStruct: nil pointer / absent body
	Elems  []*Value
	Type   *Type // VStruct (when !Nil)
	Fields []*Value
}

func Scalar(bits uint64) *Value { return &Value{K: VScalar, Bits: bits} }
func Text(b []byte) *Value      { return &Value{K: VText, Text: append([]byte{}, b...)} }
func TextS(s string) *Value     { return &Value{K: VText, Text: []byte(s)} }
func List(e ...*Value) *Value   { return &Value{K: VList, Elems: e} }
func NilList() *Value           { return &Value{K: VList, Nil: true} }
func NilStruct() *Value         { return &Value{K: VStruct, Nil: true} }

func (v *Value) Clone() *Value {
	if v == nil {
		return nil
	}
	c := &Value{K: v.K, Bits: v.Bits, Nil: v.Nil, Type: v.Type}
	if v.Text != nil {
		c.Text = append([]byte{}, v.Text...)
	}
	if v.Elems != nil {
		c.Elems = make([]*Value, len(v.Elems))
		for i, e := range v.Elems {
			c.Elems[i] = e.Clone()
		}
	}
	if v.Fields != nil {
		c.Fields = make([]*Value, len(v.Fields))
		for i, e := range v.Fields {
			c.Fields[i] = e.Clone()
		}
	}
	return c
}

// Equal compares bitwise on numbers, bytewise on text; nil list == empty list.
func Equal(a, b *Value) bool {
	if a == nil || b == nil {
		return a == b
	}
	if a.K != b.K {
		return false
	}
	switch a.K {
	case VScalar:
		return a.Bits == b.Bits
	case VText:
		return bytes.Equal(a.Text, b.Text)
	case VList:
		if len(a.Elems) != len(b.Elems) {
			return false
		}
		for i := range a.Elems {
			if !Equal(a.Elems[i], b.Elems[i]) {
				return false
			}
		}
		return true
	case VStruct:
		if a.Nil || b.Nil {
			return a.Nil == b.Nil
		}
		if a.Type != b.Type || len(a.Fields) != len(b.Fields) {
			return false
		}
		for i := range a.Fields {
			if !Equal(a.Fields[i], b.Fields[i]) {
				return false
			}
		}
		return true
	}
	return false
}

// Diff returns the path of the first difference ("" if equal).
func Diff(a, b *Value, path string) string {
	if a == nil || b == nil {
		if a == b {
			return ""
		}
		return path + ": nil vs non-nil value"
	}
	if a.K != b.K {
		return path + ": kind"
	}
	switch a.K {
	case VScalar:
		if a.Bits != b.Bits {
			return fmt.Sprintf("%s: %#x vs %#x", path, a.Bits, b.Bits)
		}
	case VText:
		if !bytes.Equal(a.Text, b.Text) {
			return fmt.Sprintf("%s: %q vs %q", path, trunc(a.Text), trunc(b.Text))
		}
	case VList:
		if len(a.Elems) != len(b.Elems) {
			return fmt.Sprintf("%s: len %d vs %d", path, len(a.Elems), len(b.Elems))
		}
		for i := range a.Elems {
			if d := Diff(a.Elems[i], b.Elems[i], fmt.Sprintf("%s[%d]", path, i)); d != "" {
				return d
			}
		}
	case VStruct:
		if a.Nil || b.Nil {
			if a.Nil != b.Nil {
				return fmt.Sprintf("%s: nil=%v vs nil=%v", path, a.Nil, b.Nil)
			}
			return ""
		}
		if a.Type != b.Type {
			return fmt.Sprintf("%s: type %s vs %s", path, a.Type.QName(), b.Type.QName())
		}
		for i := range a.Fields {
			if d := Diff(a.Fields[i], b.Fields[i], path+"."+a.Type.Fields[i].Name); d != "" {
				return d
			}
		}
	}
	return ""
}

func trunc(b []byte) []byte {
	if len(b) > 40 {
		return append(append([]byte{}, b[:40]...), "..."...)
	}
	return b
}

// String renders a compact, deterministic description (used for hashing and samples).
func (v *Value) String() string {
	var sb strings.Builder
	v.write(&sb, 0)
	return sb.String()
}

func (v *Value) write(sb *strings.Builder, depth int) {
	if v == nil {
		sb.WriteString("<nil>")
		return
	}
	switch v.K {
	case VScalar:
		sb.WriteString("0x" + strconv.FormatUint(v.Bits, 16))
	case VText:
		if len(v.Text) > 24 {
			fmt.Fprintf(sb, "%q..(%d)#%x", v.Text[:12], len(v.Text), fnv(v.Text))
		} else {
			fmt.Fprintf(sb, "%q", v.Text)
		}
	case VList:
		if v.Nil {
			sb.WriteString("nil[]")
			return
		}
		if len(v.Elems) > 6 {
			h := uint64(14695981039346656037)
			for _, e := range v.Elems {
				var s strings.Builder
				e.write(&s, depth+1)
				h = (h ^ fnv([]byte(s.String()))) * 1099511628211
			}
			fmt.Fprintf(sb, "[..%d elems #%x]", len(v.Elems), h)
			return
		}
		sb.WriteByte('[')
		for i, e := range v.Elems {
			if i > 0 {
				sb.WriteByte(',')
			}
			e.write(sb, depth+1)
		}
		sb.WriteByte(']')
	case VStruct:
		if v.Nil {
			sb.WriteString("nil")
			return
		}
		sb.WriteString(v.Type.Name + "{")
		for i, f := range v.Fields {
			if i > 0 {
				sb.WriteByte(' ')
			}
			sb.WriteString(v.Type.Fields[i].Name + ":")
			f.write(sb, depth+1)
		}
		sb.WriteByte('}')
	}
}

func fnv(b []byte) uint64 {
	h := uint64(14695981039346656037)
	for _, c := range b {
		h = (h ^ uint64(c)) * 1099511628211
	}
	return h
}

// Hash of the canonical rendering.
func (v *Value) Hash() uint64 { return fnv([]byte(v.String())) }

// Zero builds the all-zero value of a type: numbers 0, text empty, lists nil,
// nested parts present and zero, dyn = first registered key with zero body
// (key field set accordingly).
func Zero(t *Type) *Value {
	v := &Value{K: VStruct, Type: t, Fields: make([]*Value, len(t.Fields))}
	for i := range t.Fields {
		v.Fields[i] = zeroField(t, &t.Fields[i])
	}
	// make the dyn key consistent
	if di := t.DynField(); di >= 0 {
		f := &t.Fields[di]
		tab := t.Proto.Table(f.Factory)
		SetDyn(v, tab.Order[0], Zero(t.Proto.Type(tab.Entries[tab.Order[0]])))
	}
	return v
}

func zeroField(t *Type, f *Field) *Value {
	switch f.Kind {
	case "fixtext", "lentext":
		return &Value{K: VText, Text: []byte{}}
	case "list":
		return NilList()
	case "struct":
		return Zero(t.Proto.Type(f.Type))
	case "dyn":
		return NilStruct()
	default:
		return Scalar(0)
	}
}

// GoZero builds the Go zero value of a type (nil pointers, nil body).
func GoZero(t *Type) *Value {
	v := &Value{K: VStruct, Type: t, Fields: make([]*Value, len(t.Fields))}
	for i := range t.Fields {
		f := &t.Fields[i]
		if f.Kind == "struct" && f.Ptr {
			v.Fields[i] = NilStruct()
		} else {
			v.Fields[i] = zeroField(t, f)
		}
	}
	return v
}

// KeyValue builds the key-field value that selects table key k.
func KeyValue(tab *Table, k string) *Value {
	if tab.KeyKind == "text" {
		return TextS(k)
	}
	n, err := strconv.ParseUint(k, 10, 64)
	if err != nil {
		panic(err)
	}
	return Scalar(n)
}

// KeyString renders a key-field value as a table key.
func KeyString(tab *Table, v *Value) string {
	if tab.KeyKind == "text" {
		return string(v.Text)
	}
	return strconv.FormatUint(v.Bits, 10)
}

// SetDyn sets the dyn field of v to body and its key field to key.
func SetDyn(v *Value, key string, body *Value) {
	t := v.Type
	di := t.DynField()
	f := &t.Fields[di]
	tab := t.Proto.Table(f.Factory)
	v.Fields[di] = body
	v.Fields[t.FieldIndex(f.Key)] = KeyValue(tab, key)
}
