// Package schema embeds the pinned protocol schemas (DESIGN 3.1).
package schema

import "embed"

//go:embed pinned/*.json
var FS embed.FS
