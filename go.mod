module verif

go 1.24.2

require github.com/xinchentechnote/fin-proto-go v0.0.0

require (
	github.com/anishathalye/porcupine v1.3.0
	github.com/stretchr/testify v1.10.0
	golang.org/x/exp v0.0.0-20250620022241-b7579e27df2b
)

require (
	github.com/davecgh/go-spew v1.1.1 // indirect
	github.com/pmezard/go-difflib v1.0.0 // indirect
	gopkg.in/yaml.v3 v3.0.1 // indirect
)

replace github.com/xinchentechnote/fin-proto-go => /repo
