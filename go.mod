module verif

go 1.24.2

require github.com/xinchentechnote/fin-proto-go v0.0.0

require (
	github.com/anishathalye/porcupine v1.3.0
	golang.org/x/exp v0.0.0-20250620022241-b7579e27df2b
)

replace github.com/xinchentechnote/fin-proto-go => /repo
