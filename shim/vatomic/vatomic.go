//go:build vinstr

// Package vatomic replaces "sync/atomic" in the instrumented copies: every
// operation is a scheduling point followed by the real atomic operation.
package vatomic

import (
	"sync/atomic"
	"unsafe"

	"github.com/xinchentechnote/fin-proto-go/zzverif/vrt"
)

func AddInt32(p *int32, d int32) int32     { vrt.P(-2); return atomic.AddInt32(p, d) }
func AddInt64(p *int64, d int64) int64     { vrt.P(-2); return atomic.AddInt64(p, d) }
func AddUint32(p *uint32, d uint32) uint32 { vrt.P(-2); return atomic.AddUint32(p, d) }
func AddUint64(p *uint64, d uint64) uint64 { vrt.P(-2); return atomic.AddUint64(p, d) }
func LoadInt32(p *int32) int32             { vrt.P(-2); return atomic.LoadInt32(p) }
func LoadInt64(p *int64) int64             { vrt.P(-2); return atomic.LoadInt64(p) }
func LoadUint32(p *uint32) uint32          { vrt.P(-2); return atomic.LoadUint32(p) }
func LoadUint64(p *uint64) uint64          { vrt.P(-2); return atomic.LoadUint64(p) }
func StoreInt32(p *int32, v int32)         { vrt.P(-2); atomic.StoreInt32(p, v) }
func StoreInt64(p *int64, v int64)         { vrt.P(-2); atomic.StoreInt64(p, v) }
func StoreUint32(p *uint32, v uint32)      { vrt.P(-2); atomic.StoreUint32(p, v) }
func StoreUint64(p *uint64, v uint64)      { vrt.P(-2); atomic.StoreUint64(p, v) }
func CompareAndSwapInt32(p *int32, o, n int32) bool {
	vrt.P(-2)
	return atomic.CompareAndSwapInt32(p, o, n)
}
func CompareAndSwapInt64(p *int64, o, n int64) bool {
	vrt.P(-2)
	return atomic.CompareAndSwapInt64(p, o, n)
}
func CompareAndSwapUint32(p *uint32, o, n uint32) bool {
	vrt.P(-2)
	return atomic.CompareAndSwapUint32(p, o, n)
}
func CompareAndSwapUint64(p *uint64, o, n uint64) bool {
	vrt.P(-2)
	return atomic.CompareAndSwapUint64(p, o, n)
}
func LoadPointer(p *unsafe.Pointer) unsafe.Pointer     { vrt.P(-2); return atomic.LoadPointer(p) }
func StorePointer(p *unsafe.Pointer, v unsafe.Pointer) { vrt.P(-2); atomic.StorePointer(p, v) }

type Int32 struct{ v atomic.Int32 }

func (x *Int32) Load() int32                    { vrt.P(-2); return x.v.Load() }
func (x *Int32) Store(n int32)                  { vrt.P(-2); x.v.Store(n) }
func (x *Int32) Add(d int32) int32              { vrt.P(-2); return x.v.Add(d) }
func (x *Int32) Swap(n int32) int32             { vrt.P(-2); return x.v.Swap(n) }
func (x *Int32) CompareAndSwap(o, n int32) bool { vrt.P(-2); return x.v.CompareAndSwap(o, n) }

type Int64 struct{ v atomic.Int64 }

func (x *Int64) Load() int64                    { vrt.P(-2); return x.v.Load() }
func (x *Int64) Store(n int64)                  { vrt.P(-2); x.v.Store(n) }
func (x *Int64) Add(d int64) int64              { vrt.P(-2); return x.v.Add(d) }
func (x *Int64) Swap(n int64) int64             { vrt.P(-2); return x.v.Swap(n) }
func (x *Int64) CompareAndSwap(o, n int64) bool { vrt.P(-2); return x.v.CompareAndSwap(o, n) }

type Uint32 struct{ v atomic.Uint32 }

func (x *Uint32) Load() uint32                    { vrt.P(-2); return x.v.Load() }
func (x *Uint32) Store(n uint32)                  { vrt.P(-2); x.v.Store(n) }
func (x *Uint32) Add(d uint32) uint32             { vrt.P(-2); return x.v.Add(d) }
func (x *Uint32) CompareAndSwap(o, n uint32) bool { vrt.P(-2); return x.v.CompareAndSwap(o, n) }

type Uint64 struct{ v atomic.Uint64 }

func (x *Uint64) Load() uint64                    { vrt.P(-2); return x.v.Load() }
func (x *Uint64) Store(n uint64)                  { vrt.P(-2); x.v.Store(n) }
func (x *Uint64) Add(d uint64) uint64             { vrt.P(-2); return x.v.Add(d) }
func (x *Uint64) CompareAndSwap(o, n uint64) bool { vrt.P(-2); return x.v.CompareAndSwap(o, n) }

type Bool struct{ v atomic.Bool }

func (x *Bool) Load() bool                    { vrt.P(-2); return x.v.Load() }
func (x *Bool) Store(n bool)                  { vrt.P(-2); x.v.Store(n) }
func (x *Bool) Swap(n bool) bool              { vrt.P(-2); return x.v.Swap(n) }
func (x *Bool) CompareAndSwap(o, n bool) bool { vrt.P(-2); return x.v.CompareAndSwap(o, n) }

type Value struct{ v atomic.Value }

func (x *Value) Load() any                    { vrt.P(-2); return x.v.Load() }
func (x *Value) Store(n any)                  { vrt.P(-2); x.v.Store(n) }
func (x *Value) Swap(n any) any               { vrt.P(-2); return x.v.Swap(n) }
func (x *Value) CompareAndSwap(o, n any) bool { vrt.P(-2); return x.v.CompareAndSwap(o, n) }

type Pointer[T any] struct{ v atomic.Pointer[T] }

func (x *Pointer[T]) Load() *T                    { vrt.P(-2); return x.v.Load() }
func (x *Pointer[T]) Store(n *T)                  { vrt.P(-2); x.v.Store(n) }
func (x *Pointer[T]) Swap(n *T) *T                { vrt.P(-2); return x.v.Swap(n) }
func (x *Pointer[T]) CompareAndSwap(o, n *T) bool { vrt.P(-2); return x.v.CompareAndSwap(o, n) }
