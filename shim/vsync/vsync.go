//go:build vinstr

// Package vsync replaces "sync" in the instrumented copies of the library
// (import rewritten by the overlay instrumenter).  Under an active scheduler
// locks are scheduler state: acquiring is a scheduling point, a thread whose
// lock is unavailable is disabled.  With no scheduler active the real
// primitives are used (init() time, free-running code).
package vsync

import (
	"sync"

	"github.com/xinchentechnote/fin-proto-go/zzverif/vrt"
)

type Locker = sync.Locker
type WaitGroup = sync.WaitGroup
type Map = sync.Map
type Cond = sync.Cond

func NewCond(l Locker) *Cond { return sync.NewCond(l) }

type resetter interface{ Reset() }

var used []resetter

// ResetAll clears the scheduler-side state of every lock that was used under a scheduler (between executions).
func ResetAll() {
	for _, r := range used {
		r.Reset()
	}
}

type Mutex struct {
	real   sync.Mutex
	held   bool
	vc     []uint32
	viaSch bool
	reg    bool
}

func (m *Mutex) CanLock() bool  { return !m.held }
func (m *Mutex) CanRLock() bool { return !m.held }

func (m *Mutex) Lock() {
	if vrt.Acquire(m, vrt.OpLock) {
		if !m.reg {
			m.reg = true
			used = append(used, m)
		}
		m.held, m.viaSch = true, true
		vrt.JoinClock(m.vc)
		return
	}
	m.real.Lock()
}

func (m *Mutex) TryLock() bool {
	if vrt.Active() && vrt.Self() >= 0 {
		vrt.P(-1)
		if m.held {
			return false
		}
		m.held, m.viaSch = true, true
		vrt.JoinClock(m.vc)
		return true
	}
	return m.real.TryLock()
}

func (m *Mutex) Unlock() {
	if m.viaSch && m.held {
		m.vc = vrt.ReleaseClock()
		m.held, m.viaSch = false, false
		return
	}
	m.real.Unlock()
}

type RWMutex struct {
	real    sync.RWMutex
	writer  bool
	readers int
	wvc     []uint32 // clock of the last writer release
	rvc     []uint32 // join of reader releases since then
	reg     bool
}

func (m *RWMutex) register() {
	if !m.reg {
		m.reg = true
		used = append(used, m)
	}
}

func (m *RWMutex) CanLock() bool  { return !m.writer && m.readers == 0 }
func (m *RWMutex) CanRLock() bool { return !m.writer }

func (m *RWMutex) Lock() {
	if vrt.Acquire(m, vrt.OpLock) {
		m.register()
		m.writer = true
		vrt.JoinClock(m.wvc)
		vrt.JoinClock(m.rvc)
		return
	}
	m.real.Lock()
}

func (m *RWMutex) Unlock() {
	if m.writer {
		m.wvc = vrt.ReleaseClock()
		m.rvc = nil
		m.writer = false
		return
	}
	m.real.Unlock()
}

func (m *RWMutex) RLock() {
	if vrt.Acquire(m, vrt.OpRLock) {
		m.register()
		m.readers++
		vrt.JoinClock(m.wvc)
		return
	}
	m.real.RLock()
}

func (m *RWMutex) RUnlock() {
	if m.readers > 0 {
		c := vrt.ReleaseClock()
		if m.rvc == nil {
			m.rvc = c
		} else {
			for i := range c {
				if i < len(m.rvc) && c[i] > m.rvc[i] {
					m.rvc[i] = c[i]
				}
			}
		}
		m.readers--
		return
	}
	m.real.RUnlock()
}

func (m *RWMutex) RLocker() Locker { return (*rlocker)(m) }

type rlocker RWMutex

func (r *rlocker) Lock()   { (*RWMutex)(r).RLock() }
func (r *rlocker) Unlock() { (*RWMutex)(r).RUnlock() }

// Reset clears scheduler-side state between executions (the registry lock lives in a package-level variable).
func (m *RWMutex) Reset() { m.writer, m.readers, m.wvc, m.rvc = false, 0, nil, nil }
func (m *Mutex) Reset()   { m.held, m.viaSch, m.vc = false, false, nil }

// Once: Do is a scheduling point; the first caller runs f, later callers see it done (and acquire its clock).
type Once struct {
	m    Mutex
	done bool
}

func (o *Once) Do(f func()) {
	o.m.Lock()
	defer o.m.Unlock()
	if !o.done {
		defer func() { o.done = true }()
		f()
	}
}

// Pool: a shared LIFO free list (the weakest pool the sync.Pool contract allows
// that still lets one goroutine receive what another one put).
type Pool struct {
	New   func() any
	m     Mutex
	items []any
}

func (p *Pool) Get() any {
	p.m.Lock()
	defer p.m.Unlock()
	if n := len(p.items); n > 0 {
		x := p.items[n-1]
		p.items = p.items[:n-1]
		return x
	}
	if p.New != nil {
		return p.New()
	}
	return nil
}

func (p *Pool) Put(x any) {
	p.m.Lock()
	p.items = append(p.items, x)
	p.m.Unlock()
}

func OnceFunc(f func()) func() {
	var o Once
	return func() { o.Do(f) }
}
