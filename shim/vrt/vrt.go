//go:build vinstr

// Package vrt is the runtime of the controlled scheduler (DESIGN 3.5).  It is
// mapped into the library's module as <module>/zzverif/vrt by the build
// overlay only; nothing of it exists in /repo.  With no scheduler active every
// entry point is a no-op (that is how init() functions run).
package vrt

import (
	"fmt"
	"runtime"
	"sync"
	"sync/atomic"
)

// ---- operations a thread can be waiting to perform ----

const (
	OpStart = iota
	OpStep
	OpLock
	OpRLock
	OpOnce
)

type Op struct {
	Kind int
	Obj  Lockable
	Site int
}

// Lockable is implemented by the vsync primitives.
type Lockable interface {
	CanLock() bool
	CanRLock() bool
}

type Thread struct {
	ID      int
	wake    chan struct{}
	pending Op
	done    bool
	VC      []uint32
	Panic   any
	steps   int
}

type Access struct {
	Thread int
	Epoch  uint32
	Site   int
	Write  bool
}

type Race struct {
	Loc    string
	A, B   Access
	Detail string
}

type Point struct {
	Enabled        []int // canonical order: running thread first if still enabled, then ascending ids
	Running        int   // thread that executed the previous step (-1 at the start)
	Chosen         int   // index into Enabled
	RunningEnabled bool
}

type Exec struct {
	Points   []Point
	Races    []Race
	Deadlock bool
	Horizon  bool
	Diverged string // non-empty: replay of a prefix saw a different enabled set (nondeterminism not owned)
	Panics   map[int]any
	Steps    int
	Ticks    uint64
	Shared   int // package-level locations accessed by more than one thread in this execution (collision indicator)
}

type loc struct {
	lastWrite Access
	hasWrite  bool
	reads     map[int]Access
	threads   uint64 // bitmask of threads that accessed this location
}

type Sched struct {
	threads []*Thread
	cur     *Thread
	yield   chan int
	kill    chan struct{}
	killed  bool
	locs    map[string]*loc
	exec    *Exec
	clock   int
	// OnStep, if set, is called by the scheduler after each step with the thread that ran (for call/return timestamps).
}

var active atomic.Pointer[Sched]
var ticks atomic.Uint64

// Active reports whether an exploration is running.
func Active() bool { return active.Load() != nil }

// Now returns the scheduler's logical time (number of steps taken) — used to timestamp call/return events.
func Now() int {
	if s := active.Load(); s != nil {
		return s.clock
	}
	return 0
}

// Self returns the id of the running harness thread (-1 outside an exploration).
func Self() int {
	if s := active.Load(); s != nil && s.cur != nil {
		return s.cur.ID
	}
	return -1
}

// Tick counts one loop iteration (always on; read with Ticks).
func Tick() { ticks.Add(1) }

// Ticks returns the loop-iteration counter.
func Ticks() uint64 { return ticks.Load() }

// P is a scheduling point before a statement / at a function entry.
func P(site int) {
	s := active.Load()
	if s == nil || s.cur == nil {
		return
	}
	s.point(Op{Kind: OpStep, Site: site})
}

// R / W report an access to a package-level location.
func R(name string, site int) { access(name, site, false) }
func W(name string, site int) { access(name, site, true) }

func access(name string, site int, write bool) {
	s := active.Load()
	if s == nil || s.cur == nil || s.killed {
		return
	}
	t := s.cur
	l := s.locs[name]
	if l == nil {
		l = &loc{reads: map[int]Access{}}
		s.locs[name] = l
	}
	l.threads |= 1 << uint(t.ID)
	me := Access{Thread: t.ID, Epoch: t.VC[t.ID], Site: site, Write: write}
	ordered := func(a Access) bool { return a.Thread == t.ID || a.Epoch <= t.VC[a.Thread] }
	if l.hasWrite && !ordered(l.lastWrite) {
		s.race(name, l.lastWrite, me)
	}
	if write {
		for _, r := range l.reads {
			if !ordered(r) {
				s.race(name, r, me)
			}
		}
		l.lastWrite, l.hasWrite = me, true
		l.reads = map[int]Access{}
	} else {
		l.reads[t.ID] = me
	}
}

func (s *Sched) race(name string, a, b Access) {
	if len(s.exec.Races) < 8 {
		s.exec.Races = append(s.exec.Races, Race{Loc: name, A: a, B: b,
			Detail: fmt.Sprintf("%s: %s by thread %d (site %d) and %s by thread %d (site %d) are not ordered by happens-before", name, rw(a.Write), a.Thread, a.Site, rw(b.Write), b.Thread, b.Site)})
	}
}

func rw(w bool) string {
	if w {
		return "write"
	}
	return "read"
}

// point: the running thread announces its next operation and hands control back.
func (s *Sched) point(op Op) {
	t := s.cur
	if s.killed {
		return
	}
	t.pending = op
	s.yield <- t.ID
	select {
	case <-t.wake:
	case <-s.kill:
		runtime.Goexit()
	}
}

// Acquire is called by vsync before taking a lock: a scheduling point at which the thread is enabled only if the lock is available.
func Acquire(obj Lockable, kind int) bool {
	s := active.Load()
	if s == nil || s.cur == nil || s.killed {
		return false
	}
	s.point(Op{Kind: kind, Obj: obj})
	return true
}

// JoinClock merges vc into the running thread's clock (acquire edge).
func JoinClock(vc []uint32) {
	s := active.Load()
	if s == nil || s.cur == nil {
		return
	}
	t := s.cur
	for i := range vc {
		if i < len(t.VC) && vc[i] > t.VC[i] {
			t.VC[i] = vc[i]
		}
	}
}

// ReleaseClock returns a copy of the running thread's clock and advances its own component (release edge).
func ReleaseClock() []uint32 {
	s := active.Load()
	if s == nil || s.cur == nil {
		return nil
	}
	t := s.cur
	c := append([]uint32{}, t.VC...)
	t.VC[t.ID]++
	return c
}

// Choose picks the index into enabled; prefix replay and default policy live in the explorer.
type Chooser func(step int, enabled []int, runningEnabled bool) (int, error)

// Run executes the thread bodies one at a time under the chooser and returns the execution record.
func Run(bodies []func(), choose Chooser, horizon int) *Exec {
	n := len(bodies)
	s := &Sched{yield: make(chan int), kill: make(chan struct{}), locs: map[string]*loc{}, exec: &Exec{Panics: map[int]any{}}}
	t0 := ticks.Load()
	for i := 0; i < n; i++ {
		vc := make([]uint32, n)
		vc[i] = 1
		s.threads = append(s.threads, &Thread{ID: i, wake: make(chan struct{}), pending: Op{Kind: OpStart}, VC: vc})
	}
	if !active.CompareAndSwap(nil, s) {
		panic("vrt: nested exploration")
	}
	defer active.Store(nil)
	var wg sync.WaitGroup
	for i := 0; i < n; i++ {
		t, body := s.threads[i], bodies[i]
		wg.Add(1)
		go func() {
			defer wg.Done()
			select {
			case <-t.wake:
			case <-s.kill:
				return
			}
			defer func() {
				if p := recover(); p != nil {
					t.Panic = p
				}
				t.done = true
				if !s.killed {
					s.yield <- t.ID
				}
			}()
			body()
		}()
	}
	running := -1
	for {
		var enabled []int
		alldone := true
		runEn := false
		for _, t := range s.threads {
			if t.done {
				continue
			}
			alldone = false
			if s.enabled(t) {
				if t.ID == running {
					runEn = true
				} else {
					enabled = append(enabled, t.ID)
				}
			}
		}
		if runEn {
			enabled = append([]int{running}, enabled...)
		}
		if alldone {
			break
		}
		if len(enabled) == 0 {
			s.exec.Deadlock = true
			break
		}
		if s.exec.Steps >= horizon {
			s.exec.Horizon = true
			break
		}
		c, err := choose(len(s.exec.Points), enabled, runEn)
		if err != nil {
			s.exec.Diverged = err.Error()
			break
		}
		s.exec.Points = append(s.exec.Points, Point{Enabled: enabled, Running: running, Chosen: c, RunningEnabled: runEn})
		t := s.threads[enabled[c]]
		s.cur = t
		s.clock++
		s.exec.Steps++
		t.wake <- struct{}{}
		<-s.yield // the thread reached its next point or finished
		s.cur = nil
		running = t.ID
	}
	if s.exec.Deadlock || s.exec.Horizon || s.exec.Diverged != "" {
		s.killed = true
		close(s.kill)
	}
	wg.Wait()
	for _, t := range s.threads {
		if t.Panic != nil {
			s.exec.Panics[t.ID] = t.Panic
		}
	}
	s.exec.Ticks = ticks.Load() - t0
	for _, l := range s.locs {
		if l.threads&(l.threads-1) != 0 {
			s.exec.Shared++
		}
	}
	return s.exec
}

func (s *Sched) enabled(t *Thread) bool {
	switch t.pending.Kind {
	case OpLock:
		return t.pending.Obj.CanLock()
	case OpRLock:
		return t.pending.Obj.CanRLock()
	}
	return true
}
